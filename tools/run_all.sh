#!/bin/bash
# runs every claimed property's check at the given tier, sequentially; prints one line per property
tier=${1:-quick}
cd /verif
for p in $(python3 -c "import sys; sys.path.insert(0,'tools'); import registry; print(' '.join(sorted(registry.PROPERTIES)))"); do
  s=$(date +%s)
  ./check $p --tier $tier > build/all-$p-$tier.log 2>&1
  rc=$?
  e=$(date +%s)
  echo "$p tier=$tier exit=$rc wall=$((e-s))s $(tail -1 build/all-$p-$tier.log | cut -c1-160)"
done
