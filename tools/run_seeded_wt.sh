#!/bin/bash
# usage: run_seeded_wt.sh <seed id> <property> [tier] [--only list]
# Like run_seeded.sh, but applies seeded/<id>/patch.diff to a scratch worktree of /repo (outside /repo and /verif), runs the
# property's check against it (VERIF_REPO) without touching the evidence file, and removes the worktree. Lets several seeded
# changes be exercised while /repo itself stays untouched. (timestamp.rs is compiled from /repo by #[path]; seeds that edit it
# must use run_seeded.sh.)
id=$1; prop=$2; tier=${3:-quick}
if [ $# -ge 3 ]; then shift 3; else shift $#; fi
cd /verif
wt=/tmp/seedwt_$id
git -C /repo worktree remove --force $wt 2>/dev/null
git -C /repo worktree add -q --detach $wt HEAD || exit 9
git -C $wt apply /verif/seeded/$id/patch.diff || { echo "patch does not apply"; git -C /repo worktree remove --force $wt; exit 9; }
VERIF_REPO=$wt VERIF_NO_EVIDENCE=1 ./check $prop --tier $tier "$@" > build/seeded-$id-$prop.log 2>&1
rc=$?
git -C /repo worktree remove --force $wt
echo "seed=$id property=$prop tier=$tier exit=$rc  $(grep -c '^VIOLATION' build/seeded-$id-$prop.log) violation line(s)"
grep '^VIOLATION\|failed obligation' build/seeded-$id-$prop.log | cut -c1-260 | head -6
