#!/bin/bash
# usage: tools/prof.sh <unit> <harness_mod::harness> [timeout_s] [extra env...]  -- profile one harness (CBMC phases)
unit=$1; h=$2; to=${3:-900}; shift 3
crate=$(python3 -c "import sys; sys.path.insert(0,'/verif/tools'); import registry; u=registry.UNITS['$unit']; print(u['crate']); import json; print(' '.join(f'{k}={v}' for k,v in u.get('env',{}).items())); print(' '.join(u.get('kani_flags',[])))")
dir=$(echo "$crate" | sed -n 1p); envs=$(echo "$crate" | sed -n 2p); flags=$(echo "$crate" | sed -n 3p)
python3 -c "import sys; sys.path.insert(0,'/verif/tools'); import registry, slicer; u=registry.UNITS['$unit']; u.get('slice') and slicer.run_unit('$unit',u,'/repo','/verif/build/'+u.get('gen_unit','$unit')+'/gen')"
cd /verif/$dir && cp /repo/Cargo.lock . 
rm -rf /verif/build/target-$unit/kani/x86_64-unknown-linux-gnu/debug/build/h-*
out=/verif/build/prof-$unit-$(echo $h | tr ':' '_').log
setsid env CARGO_NET_OFFLINE=true RUSTFLAGS='--cfg datacake_verif' CARGO_TARGET_DIR=/verif/build/target-$unit $envs "$@" \
  bash -c "ulimit -v $((${VERIF_MEM_GB:-24}*1024*1024)); exec timeout -s KILL $to cargo kani $flags -Z unstable-options --harness $h --exact --cbmc-args --verbosity 9" > $out 2>&1 &
pid=$!
wait $pid
echo "rc=$?"; pkill -9 -s $pid -x cbmc
grep -E "Runtime Symex|size of program|Generated .* VCC|Runtime Convert SSA|variables, .* clauses|VERIFICATION|Verification Time|out of memory|Failed Checks|error" $out | sort | uniq -c | sort -rn | head -20
grep "Runtime decision procedure" $out | awk '{s+=$4} END {print "decision total", s}'
