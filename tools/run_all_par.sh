#!/bin/bash
# runs every claimed property's check at the given tier in two parallel streams (properties that share a unit are in one stream; two streams keep
# the memory footprint below the machine's 62 GB -- three streams of thorough checks made CBMC processes fail for lack of memory)
tier=${1:-quick}
cd /verif
run() { for p in "$@"; do s=$(date +%s); ./check $p --tier $tier > build/all-$p-$tier.log 2>&1; rc=$?; e=$(date +%s); echo "$p tier=$tier exit=$rc wall=$((e-s))s $(tail -1 build/all-$p-$tier.log | cut -c1-160)"; done; }
run C13 C09 C10 C12 C11 C18 C16 C15 &
run C02 C03 C04 C05 C07 C08 &
wait
