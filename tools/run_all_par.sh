#!/bin/bash
# runs every claimed property's check at the given tier in three parallel streams (units are locked per unit, so streams that share a unit wait for each other)
tier=${1:-quick}
cd /verif
run() { for p in "$@"; do s=$(date +%s); ./check $p --tier $tier > build/all-$p-$tier.log 2>&1; rc=$?; e=$(date +%s); echo "$p tier=$tier exit=$rc wall=$((e-s))s $(tail -1 build/all-$p-$tier.log | cut -c1-160)"; done; }
run C16 C02 C09 C10 C12 &
run C15 C03 C04 C18 C11 &
run C13 C07 C05 C08 &
wait
