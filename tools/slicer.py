"""Mechanical extractor ("slice & substitute"), run on every check from /repo's working tree.

It performs exactly these edits and nothing else (each recorded in the returned info and in
the header of the generated file):
  * whole-file copy with `use` redirections (regular expressions applied to top-level `use`
    items only), optional `Vec`/`vec!` shadowing lines prepended, optional lines appended
    (the `mod` line that mounts the contract module as a child so it can see private items);
  * item slices: named items (`fn`, `struct`, `enum`, `const`, `type`, whole `impl` blocks or
    selected `fn`s of an `impl` block) cut verbatim by a brace/string/comment-aware scanner
    and pasted after a hand-written prelude; listed proc-macro attributes are dropped.
It never edits an expression or statement inside a sliced function.
"""
import hashlib
import os
import re


class LostAnchor(Exception):
    pass


# --------------------------------------------------------------------------- scanner
def _skip_ws_comments(s, i):
    n = len(s)
    while i < n:
        if s[i].isspace():
            i += 1
        elif s.startswith("//", i):
            j = s.find("\n", i)
            i = n if j < 0 else j + 1
        elif s.startswith("/*", i):
            i = _skip_block_comment(s, i)
        else:
            break
    return i


def _skip_block_comment(s, i):
    depth = 0
    n = len(s)
    while i < n:
        if s.startswith("/*", i):
            depth += 1
            i += 2
        elif s.startswith("*/", i):
            depth -= 1
            i += 2
            if depth == 0:
                return i
        else:
            i += 1
    return n


def _skip_string(s, i):
    """s[i] is at a string/char start; return index after it."""
    n = len(s)
    # raw strings r"..." r#"..."# br#"..."#
    m = re.match(r'b?r(#*)"', s[i:i + 12])
    if m:
        hashes = m.group(1)
        end = s.find('"' + hashes, i + len(m.group(0)))
        return n if end < 0 else end + 1 + len(hashes)
    if s[i] == 'b' and i + 1 < n and s[i + 1] == '"':
        i += 1
    if s[i] == '"':
        i += 1
        while i < n:
            if s[i] == '\\':
                i += 2
            elif s[i] == '"':
                return i + 1
            else:
                i += 1
        return n
    return i + 1


def _char_or_lifetime(s, i):
    """s[i] == "'": char literal or lifetime. Return index after it."""
    n = len(s)
    if i + 2 < n and s[i + 1] == '\\':
        j = s.find("'", i + 2)
        return n if j < 0 else j + 1
    if i + 2 < n and s[i + 2] == "'":
        return i + 3
    # lifetime: skip identifier
    j = i + 1
    while j < n and (s[j].isalnum() or s[j] == '_'):
        j += 1
    return j


def code_positions(s):
    """Yields (index, char) for characters that are code (not in comments/strings)."""
    i, n = 0, len(s)
    while i < n:
        c = s[i]
        if s.startswith("//", i):
            j = s.find("\n", i)
            i = n if j < 0 else j
        elif s.startswith("/*", i):
            i = _skip_block_comment(s, i)
        elif c == '"' or re.match(r'b?r#*"', s[i:i + 12]) or (c == 'b' and s[i + 1:i + 2] == '"'):
            # make sure `r`/`b` is not part of an identifier
            if c in 'rb' and i > 0 and (s[i - 1].isalnum() or s[i - 1] == '_'):
                yield i, c
                i += 1
            else:
                i = _skip_string(s, i)
        elif c == "'":
            i = _char_or_lifetime(s, i)
        else:
            yield i, c
            i += 1


def match_brace(s, open_idx):
    """index just after the brace matching s[open_idx] == '{'"""
    depth = 0
    for i, c in code_positions(s[open_idx:]):
        if c == '{':
            depth += 1
        elif c == '}':
            depth -= 1
            if depth == 0:
                return open_idx + i + 1
    raise LostAnchor("unbalanced braces")


def code_mask(s):
    mask = bytearray(len(s))
    for i, _ in code_positions(s):
        mask[i] = 1
    return mask


def find_code(s, mask, rx, start=0, end=None):
    for m in re.finditer(rx, s[:end] if end else s):
        if m.start() >= start and mask[m.start()]:
            return m
    return None


def item_start_with_attrs(s, idx):
    """extend backwards over attribute lines and doc comments directly above idx's line"""
    line_start = s.rfind("\n", 0, idx) + 1
    pos = line_start
    while pos > 0:
        prev_end = pos - 1
        prev_start = s.rfind("\n", 0, prev_end) + 1
        line = s[prev_start:prev_end].strip()
        if line.startswith("#[") or line.startswith("///") or line.startswith("//!") or line.startswith("#!["):
            pos = prev_start
        elif line.endswith(")]") or line.endswith(",") and False:
            break
        else:
            # multi-line attribute: `#[cfg_attr(` ... `)]` -- handle closing line
            if line == ")]" or line.endswith(")]"):
                # walk up to the line that starts the attribute
                q = prev_start
                while q > 0:
                    pe = q - 1
                    ps = s.rfind("\n", 0, pe) + 1
                    if s[ps:pe].strip().startswith("#["):
                        q = ps
                        break
                    q = ps
                pos = q
                continue
            break
    return pos


def item_end(s, mask, idx):
    """end of the item whose header starts at idx: first code ';' or matching '}' of first code '{'
    (const / static items: the first ';' outside every bracket -- their initialiser may contain blocks)"""
    i = idx
    n = len(s)
    depth_paren = 0
    if re.match(r"(?:pub(?:\([a-z]+\))?\s+)?(?:const|static)\s+[A-Za-z_]", s[idx:idx + 40]) and not re.match(r"(?:pub(?:\([a-z]+\))?\s+)?const\s+(?:async\s+)?(?:unsafe\s+)?fn\b", s[idx:idx + 60]):
        depth = 0
        while i < n:
            if mask[i]:
                c = s[i]
                if c in '([{':
                    depth += 1
                elif c in ')]}':
                    depth -= 1
                elif c == ';' and depth == 0:
                    return i + 1
            i += 1
        raise LostAnchor("item end not found")
    while i < n:
        if mask[i]:
            c = s[i]
            if c in '([':
                depth_paren += 1
            elif c in ')]':
                depth_paren -= 1
            elif c == ';' and depth_paren == 0:
                return i + 1
            elif c == '{' and depth_paren == 0:
                return match_brace(s, i)
        i += 1
    raise LostAnchor("item end not found")


HEADER_RX = {
    "fn": r"(?:pub(?:\([a-z]+\))?\s+)?(?:const\s+)?(?:async\s+)?(?:unsafe\s+)?fn\s+{name}\b",
    "struct": r"(?:pub(?:\([a-z]+\))?\s+)?struct\s+{name}\b",
    "enum": r"(?:pub(?:\([a-z]+\))?\s+)?enum\s+{name}\b",
    "const": r"(?:pub(?:\([a-z]+\))?\s+)?const\s+{name}\b",
    "static": r"(?:pub(?:\([a-z]+\))?\s+)?static\s+{name}\b",
    "type": r"(?:pub(?:\([a-z]+\))?\s+)?type\s+{name}\b",
    "trait": r"(?:pub(?:\([a-z]+\))?\s+)?trait\s+{name}\b",
    "macro": r"macro_rules!\s+{name}\b",
}


def deasync(text, info, where):
    """Mechanical de-sugaring used for units whose stand-in dependencies are synchronous: the `async`
    keyword of `async fn` and every `.await` token (in code, not in strings/comments) are deleted.
    Nothing else is touched. `async` blocks/closures are not handled (lost anchor => undecided)."""
    mask = code_mask(text)
    out = []
    i = 0
    n = len(text)
    n_async = n_await = 0
    while i < n:
        if mask[i] and text.startswith(".await", i) and not (text[i + 6:i + 7].isalnum() or text[i + 6:i + 7] == "_"):
            i += 6
            n_await += 1
            continue
        if mask[i] and text.startswith("async", i) and (i == 0 or not (text[i - 1].isalnum() or text[i - 1] == "_")):
            m = re.match(r"async(\s+)(unsafe\s+)?fn\b", text[i:])
            if m:
                i += 5 + len(m.group(1))
                n_async += 1
                continue
            if re.match(r"async\s*(move\s*)?[{|]", text[i:]):
                raise LostAnchor(f"{where}: async block/closure cannot be de-sugared")
        out.append(text[i])
        i += 1
    if n_async or n_await:
        info["dropped"].append(f"{where}: `async` keyword x{n_async}, `.await` x{n_await} (stand-ins are synchronous)")
    return "".join(out)


def drop_attrs(text, attrs, dropped, where):
    if not attrs:
        return text
    out = []
    for line in text.split("\n"):
        st = line.strip()
        hit = None
        for a in attrs:
            if re.match(r"#\[\s*" + a + r"\b.*\]\s*$", st):
                hit = a
        if hit:
            dropped.append(f"{where}: {st}")
        else:
            out.append(line)
    return "\n".join(out)


def slice_item(s, mask, kind, name, scope=(0, None)):
    start, end = scope
    if kind == "impl":
        rx = name  # caller supplies the full header regex
    else:
        rx = HEADER_RX[kind].format(name=re.escape(name))
    m = find_code(s, mask, rx, start, end)
    if not m:
        raise LostAnchor(f"{kind} {name} not found")
    a = item_start_with_attrs(s, m.start())
    b = item_end(s, mask, m.start())
    return a, b, m


def sha(text):
    return hashlib.sha256(text.encode()).hexdigest()


def run_job(job, repo, outdir, info):
    src = os.path.join(repo, job["src"])
    if not os.path.exists(src):
        raise LostAnchor(f"{job['src']} missing")
    s = open(src).read()
    mask = code_mask(s)
    out = []
    header = [f"// GENERATED by tools/slicer.py from {job['src']} (sha256 {sha(s)[:16]}) -- do not edit",
              f"// mode: {job['mode']}"]
    for need in job.get("require", []):
        if not find_code(s, mask, need):
            raise LostAnchor(f"{job['src']}: anchor /{need}/ not found")
    if job["mode"] == "whole":
        body = s
        nrew = 0
        for rx, repl in job.get("use_rewrites", []):
            def _r(m, rx=rx, repl=repl):
                nonlocal nrew
                new = re.sub(rx, repl, m.group(0))
                if new != m.group(0):
                    nrew += 1
                    info["rewrites"].append(f"{job['src']}: `{m.group(0).strip()}` -> `{new.strip()}`")
                return new
            body = re.sub(r"(?m)^use [^;]*;", _r, body)
        if job.get("min_rewrites") and nrew < job["min_rewrites"]:
            raise LostAnchor(f"{job['src']}: expected >= {job['min_rewrites']} `use` redirections, made {nrew}")
        pre = job.get("prepend", [])
        app = job.get("append", [])
        for l in pre:
            info["rewrites"].append(f"{job['src']}: prepended `{l}`")
        for l in app:
            info["rewrites"].append(f"{job['src']}: appended `{l}`")
        header.append(f"// whole-file copy; {nrew} use-redirection(s); {len(pre)} line(s) prepended; {len(app)} appended")
        out = header + pre + [body] + app
        info["slices"].append(dict(src=job["src"], item="<whole file>", bytes=[0, len(s)], sha256=sha(s)))
    elif job["mode"] == "items":
        parts = []
        for it in job["items"]:
            kind, name = it["kind"], it["name"]
            if kind == "impl_fns":
                # selected fns of an impl block: header verbatim, selected fn texts verbatim
                m = find_code(s, mask, it["header"])
                if not m:
                    raise LostAnchor(f"impl /{it['header']}/ not found in {job['src']}")
                a = item_start_with_attrs(s, m.start())
                # find opening brace of impl
                i = m.start()
                while not (mask[i] and s[i] == '{'):
                    i += 1
                b = match_brace(s, i)
                head = s[a:i + 1]
                head = drop_attrs(head, job.get("drop_attrs", []), info["dropped"], f"{job['src']}:{name}")
                fn_texts = []
                for fname in it["fns"]:
                    fa, fb, _ = slice_item(s, mask, "fn", fname, (i, b))
                    t = s[fa:fb]
                    t = drop_attrs(t, job.get("drop_attrs", []), info["dropped"], f"{job['src']}:{fname}")
                    if job.get("deasync"):
                        t = deasync(t, info, f"{job['src']}:{fname}")
                    fn_texts.append(t)
                    info["slices"].append(dict(src=job["src"], item=f"{name}::{fname}", bytes=[fa, fb], sha256=sha(s[fa:fb])))
                parts.append(head + "\n" + "\n\n".join(fn_texts) + "\n}\n")
            elif kind == "block":
                # a `{ ... }` block INSIDE a function (e.g. one match arm of an actor loop), cut verbatim and pasted between a
                # hand-written wrapper head and tail (the wrapper's signature names the variables the block uses)
                m = find_code(s, mask, it["anchor"])
                if not m:
                    raise LostAnchor(f"block anchor /{it['anchor']}/ not found in {job['src']}")
                i = m.end()
                while i < len(s) and not (mask[i] and not s[i].isspace()):
                    i += 1
                if i >= len(s) or s[i] != '{':
                    raise LostAnchor(f"block {name}: no `{{` after the anchor")
                b = match_brace(s, i)
                t = s[i:b]
                if job.get("deasync"):
                    t = deasync(t, info, f"{job['src']}:{name}")
                parts.append(it["wrap_head"] + "\n" + t + "\n" + it["wrap_tail"] + "\n")
                info["slices"].append(dict(src=job["src"], item=f"block {name}", bytes=[i, b], sha256=sha(s[i:b])))
            else:
                a, b, _ = slice_item(s, mask, kind, it.get("header", name) if kind == "impl" else name)
                t = s[a:b]
                t = drop_attrs(t, job.get("drop_attrs", []), info["dropped"], f"{job['src']}:{name}")
                if job.get("deasync"):
                    t = deasync(t, info, f"{job['src']}:{name}")
                for rx, repl in it.get("vis", []):
                    t = re.sub(rx, repl, t, count=1)
                parts.append(t + "\n")
                info["slices"].append(dict(src=job["src"], item=f"{kind} {name}", bytes=[a, b], sha256=sha(s[a:b])))
        # module-level constants of primitive type that the listed items may (come to) use are sliced automatically: a change that
        # introduces `const RETRIES: usize = 3;` next to a sliced function must be decided, not end in a compile error (= undecided)
        listed = {it["name"] for it in job["items"] if it["kind"] == "const"}
        auto = []
        _types = "usize|u8|u16|u32|u64|u128|isize|i8|i16|i32|i64|bool|&'static\\s+str|&str" + "".join("|" + t for t in job.get("auto_const_types", []))
        for m in re.finditer(r"(?m)^(?:pub(?:\([a-z]+\))?\s+)?const\s+([A-Z][A-Z0-9_]*)\s*:\s*(" + _types + r")\s*=", s):
            if not mask[m.start()] or m.group(1) in listed:
                continue
            a = item_start_with_attrs(s, m.start())
            b = item_end(s, mask, m.start())
            auto.append(s[a:b] + "\n")
            info["slices"].append(dict(src=job["src"], item=f"const {m.group(1)} (auto: module-level primitive constant)", bytes=[a, b], sha256=sha(s[a:b])))
        # tracing macros are no-ops everywhere (a prelude may shadow these with its own definitions)
        shim = "".join(f"#[allow(unused_macros)]\nmacro_rules! {n} {{ ($($t:tt)*) => {{}}; }}\n" for n in ("trace", "debug", "info", "warn", "error"))
        prelude = ""
        if job.get("prelude"):
            prelude = open(job["prelude"]).read()
            header.append(f"// prelude: {job['prelude']}")
        out = header + [shim, prelude] + auto + parts + job.get("append", [])
    else:
        raise ValueError(job["mode"])
    os.makedirs(outdir, exist_ok=True)
    text = "\n".join(out)
    p = os.path.join(outdir, job["out"])
    old = open(p).read() if os.path.exists(p) else None
    if old != text:
        # atomic: units that share a generated copy may slice concurrently (identical content)
        tmp = p + f".tmp{os.getpid()}-{id(job)}"
        with open(tmp, "w") as f:
            f.write(text)
        os.replace(tmp, p)


def run_unit(unit, u, repo, outdir):
    info = {"rewrites": [], "dropped": [], "slices": []}
    for job in u["slice"]:
        run_job(job, repo, outdir, info)
    return info
