#!/bin/bash
# usage: confirm_seed.sh <id> <worktree> <crate> <demo test filter or --test name>
# Confirms: (1) mutation compiles and existing unit tests of the crate pass, (2) demo fails with the mutation, (3) demo passes without it.
id=$1; wt=$2; crate=$3; shift 3; demo_args="$@"
cd $wt || exit 9
export CARGO_TARGET_DIR=$wt/target
git checkout -q -- . ; git clean -fdq -e seeded_out -e target
S=/verif/seeded/$id
git apply $S/patch.diff || { echo "patch does not apply"; exit 9; }
r1=$(cargo test -p $crate --offline --lib 2>&1 | grep 'test result' | head -1)
git apply $S/demo.diff || { echo "demo does not apply"; exit 9; }
r2=$(cargo test -p $crate --offline $demo_args 2>&1 | grep 'test result' | grep -v ' 0 passed; 0 failed' | head -2 | tr '\n' ' ')
git apply -R $S/patch.diff
r3=$(cargo test -p $crate --offline $demo_args 2>&1 | grep 'test result' | grep -v ' 0 passed; 0 failed' | head -2 | tr '\n' ' ')
git checkout -q -- . ; git clean -fdq -e seeded_out -e target
echo "$id | existing-with-mutation: $r1 | demo-with-mutation: $r2 | demo-without: $r3"
