"""Registry: units (harness crates / lemma files), obligations, properties.

An *obligation* is one machine-checked contract clause set: a Kani harness
(class P = complete: loop-free or havoc-state harness over the full symbolic
domain; class B = bounded stand-in with the stated bound) or a Verus file
(class P, every `verified` item counts).  A *property* lists the obligations
whose discharge decides it.
"""

import os as _os
# the tree under verification; overridden only by tools/run_seeded_wt.sh (seeded changes applied to a scratch worktree)
REPO = _os.environ.get("VERIF_REPO", "/repo")

# --------------------------------------------------------------------------- units
UNITS = {
    "timestamp": {
        "kind": "kani",
        "crate": "harness/timestamp",
        "slice": None,  # compiled straight from /repo via #[path]
        "kani_flags": ["-Z", "stubbing"],
        "sources": ["datacake-crdt/src/timestamp.rs"],
        "extraction": "none: #[path = \"/repo/datacake-crdt/src/timestamp.rs\"] (whole file, unedited, cfg(datacake_verif) hook on)",
        "functions": [
            "HLCTimestamp::new", "HLCTimestamp::send", "HLCTimestamp::recv", "HLCTimestamp::node",
            "HLCTimestamp::counter", "HLCTimestamp::seconds", "HLCTimestamp::fractional",
            "HLCTimestamp::unix_timestamp", "HLCTimestamp::datacake_timestamp", "HLCTimestamp::as_u64",
            "HLCTimestamp::from_u64", "<HLCTimestamp as FromStr>::from_str", "pack", "duration_to_parts",
            "parts_as_duration", "derived Ord/PartialOrd/Eq on HLCTimestamp",
        ],
        "assumptions": [
            "wall clock reading is inside the representable range (<= 2^32-1 s after the datacake epoch, i.e. before year 2159)",
            "std::time::Duration arithmetic and core integer parsing are as compiled by Kani from the Rust std sources",
            "ts_from_str_*: <u64|u8 as FromStr>::from_str and u16::from_str_radix are replaced by stubs returning an arbitrary Ok(value) or Err (assumed: std integer parsing itself does not panic)",
        ],
    },
}

UNITS["orswot"] = {
    "kind": "kani",
    "crate": "harness/orswot",
    "harness_mod": "orswot::verif_contracts",
    "kani_flags": [],
    "sources": ["datacake-crdt/src/orswot.rs", "datacake-crdt/src/timestamp.rs"],
    "slice": [{
        "mode": "whole", "src": "datacake-crdt/src/orswot.rs", "out": "orswot.rs",
        "use_rewrites": [(r"std::collections", "vcoll")], "min_rewrites": 2,
        "require": [r"fn insert_with_source", r"fn delete_with_source", r"fn will_apply", r"fn try_update_max_stamp",
                    r"fn compute_safe_last_stamp", r"fn is_ts_before_last_observed_event", r"fn check_self_then_insert_to",
                    r"fn purge_old_deletes", r"fn diff", r"fn merge"],
        "append": ['#[cfg(kani)] #[path = "/verif/harness/orswot/src/contracts.rs"] mod verif_contracts;'],
    }],
    "extraction": "whole-file copy of orswot.rs; `use std::collections...` lines redirected to vcoll; one `mod` line appended to mount the contract module; timestamp.rs via #[path] unedited",
    "functions": [
        "NodeVersions::try_update_max_stamp", "NodeVersions::compute_safe_last_stamp",
        "NodeVersions::is_ts_before_last_observed_event", "OrSWotSet::will_apply", "OrSWotSet::get",
        "OrSWotSet::insert_with_source", "OrSWotSet::delete_with_source", "OrSWotSet::check_self_then_insert_to",
    ],
    "assumptions": [
        "vcoll havoc maps model std BTreeMap/HashMap get/insert/remove/entry on the touched keys (assumed contract on std::collections, validated differentially)",
        "every stored stamp satisfies the HLCTimestamp type invariant (fraction < 250) and newest stamps are keyed by their own origin node (wf_origin)",
        "state invariant assumed on entry and proved on exit: live/dead disjoint at the touched keys; cut-off == cut(min over sources) at the touched origins",
        "real-build constants: N = 2 sources, FORGIVENESS_PERIOD = 3600 s (cfg!(test) is false in the harness crate)",
    ],
    "timeout_quick": 900,
}

UNITS["rpc_registry"] = {
    "kind": "kani",
    "crate": "harness/rpc_registry",
    "harness_mod": "server::verif_contracts",
    "kani_flags": [],
    "env": {"VCOLL_CAP": "4"},
    "max_jobs": 4,  # the add_handlers harnesses take ~7 GB each
    "sources": ["datacake-rpc/src/server.rs"],
    "slice": [{
        "mode": "items", "src": "datacake-rpc/src/server.rs", "out": "server.rs",
        "prelude": "/verif/harness/rpc_registry/src/prelude.rs",
        "items": [
            {"kind": "struct", "name": "ServerState"},
            {"kind": "impl", "name": "ServerState", "header": r"impl ServerState\s*\{"},
        ],
        "append": ['#[cfg(kani)] #[path = "/verif/harness/rpc_registry/src/contracts.rs"] mod verif_contracts;'],
    }],
    "extraction": "items `struct ServerState` and `impl ServerState` (add_handlers, remove_handlers, get_handler) cut verbatim and pasted after "
                  "harness/rpc_registry/src/prelude.rs; nothing inside the items is edited",
    "functions": ["ServerState::add_handlers", "ServerState::remove_handlers", "ServerState::get_handler"],
    "assumptions": [
        "parking_lot Mutex/RwLock give exclusive access (modelled as single-owner cells; no concurrency in Kani)",
        "crate::hash (SipHash) is injective on the registered URIs (stand-in: injective function on the 4 harness URIs)",
        "handler objects are opaque ids; Arc is a leak-based shared pointer",
        "vcoll concrete maps (capacity 4) stand in for BTreeMap; BTreeSet<HandlerKey> values are 64-bit masks (vcoll::BitSet)",
    ],
    "timeout_quick": 900,
}

UNITS["rpc_view"] = {
    "kind": "kani",
    "crate": "harness/rpc_view",
    "harness_mod": "contracts",
    "kani_flags": [],
    "sources": ["datacake-rpc/src/rkyv_tooling/view.rs", "datacake-rpc/src/rkyv_tooling/mod.rs"],
    "slice": [
        {"mode": "items", "src": "datacake-rpc/src/rkyv_tooling/view.rs", "out": "view.rs",
         "prelude": "/verif/harness/rpc_view/src/prelude_view.rs",
         "drop_attrs": ["derive", "error"],
         "items": [
             {"kind": "struct", "name": "InvalidView"},
             {"kind": "struct", "name": "DataView"},
             {"kind": "impl", "name": "DataView (using/as_bytes/into_data)",
              "header": r"impl<T> DataView<T>\s+where\s+T: Archive,\s+T::Archived: 'static,\s*\{"},
             {"kind": "impl", "name": "Deref for DataView", "header": r"impl<T> Deref for DataView<T>"},
         ],
         "require": [r"fn using\(data: AlignedVec\)", r"crc32fast::hash", r"archived_root"]},
        {"mode": "items", "src": "datacake-rpc/src/rkyv_tooling/mod.rs", "out": "tooling.rs",
         "prelude": "/verif/harness/rpc_view/src/prelude_tooling.rs",
         "items": [
             {"kind": "type", "name": "DatacakeSerializer"},
             {"kind": "fn", "name": "to_view_bytes"},
         ]},
    ],
    "extraction": "items InvalidView, DataView, `impl<T> DataView<T>` (using, as_bytes, into_data), `impl Deref for DataView` from view.rs and "
                  "DatacakeSerializer, to_view_bytes from mod.rs, cut verbatim; dropped attributes: #[derive(..)] / #[error(..)] on InvalidView (thiserror)",
    "functions": ["DataView::using", "DataView::as_bytes", "<DataView as Deref>::deref", "to_view_bytes"],
    "assumptions": [
        "crc32fast::hash is an uninterpreted function (arbitrary u32 per distinct input, equal for equal inputs); nothing about CRC-32's error detection is proved: "
        "'every single-bit corruption is refused' follows from the proved frame contract only together with the ASSUMED property that CRC-32 changes under any single-bit change",
        "rkyv::archived_root stand-in asserts the length part of the real function's safety contract and performs the same pointer computation; rkyv (de)serialisation "
        "correctness (handler observes a value equal to the one sent; Status code/message round trip) is assumed, not verified",
        "T::Archived instantiated at sizes 1, 8, 24 bytes with alignment 1; frames of every length up to 40 bytes (AlignedVec stand-in capacity)",
        "unsafe in scope: the lifetime transmute and archived_root call in DataView::using (covered by Kani's pointer checks and the asserted precondition)",
    ],
    "timeout_quick": 900,
}

UNITS["actor"] = {
    "kind": "kani",
    "crate": "harness/actor",
    "harness_mod": "actor::verif_contracts",
    "kani_flags": [],
    "sources": ["datacake-eventual-consistency/src/keyspace/actor.rs", "datacake-crdt/src/timestamp.rs"],
    "slice": [{
        "mode": "items", "src": "datacake-eventual-consistency/src/keyspace/actor.rs", "out": "actor.rs",
        "prelude": "/verif/harness/actor/src/prelude.rs",
        "drop_attrs": ["puppet_actor", "puppet"],
        "deasync": True,
        "items": [
            {"kind": "struct", "name": "KeyspaceActor"},
            {"kind": "impl_fns", "name": "KeyspaceActor", "header": r"impl<S> KeyspaceActor<S>\s+where\s+S: Storage,\s*\{",
             "fns": ["inc_change_timestamp", "on_set", "on_multi_set", "on_del", "on_multi_del", "on_purge_tombstones", "on_diff"]},
        ],
        "append": ['#[cfg(kani)] #[path = "/verif/harness/actor/src/contracts.rs"] mod verif_contracts;'],
    }],
    "extraction": "items `struct KeyspaceActor` and the fns inc_change_timestamp, on_set, on_multi_set, on_del, on_multi_del, on_purge_tombstones, on_diff of "
                  "`impl<S> KeyspaceActor<S>` cut verbatim and pasted after harness/actor/src/prelude.rs; dropped attributes: #[puppet_actor], #[puppet]; "
                  "the `async` keyword and every `.await` token are deleted (stand-in storage/clock are synchronous and always ready; a poll loop over the "
                  "real state machines exhausts CBMC: 26 M variables vs 0.35 M)",
    "functions": ["KeyspaceActor::on_set", "KeyspaceActor::on_del", "KeyspaceActor::on_multi_set", "KeyspaceActor::on_multi_del",
                  "KeyspaceActor::on_purge_tombstones", "KeyspaceActor::inc_change_timestamp"],
    "assumptions": [
        "the ORSWOT set is linked by contract (contracts/specset.rs = kernels over vcoll maps); that the real orswot.rs meets those contracts is obligations os_* of the same check",
        "the ghost store IS the Storage contract: a single call may fail having written nothing; a bulk call may fail with an arbitrary subset written = the subset it reports",
        "Document/DocumentMetadata/message structs mirror the field layout of core.rs/messages.rs; SmallVec/Vec -> vcoll::VVec; Arc/AtomicCell/Clock are trivial stand-ins",
        "every await is on a stand-in that is immediately ready, so `async`/`.await` are de-sugared away by the slicer: task cancellation between await points is NOT covered; proc-macro generated actor plumbing (puppet) is not verified",
        "distinct timestamps: an incoming put does not carry exactly the stamp of a tombstone already held for that id",
    ],
    "env": {"VCOLL_CAP": "3", "VCOLL_VCAP": "3"},
    "timeout_quick": 1200,
}

UNITS["group"] = {
    "kind": "kani",
    "crate": "harness/group",
    "harness_mod": "group::verif_contracts",
    "kani_flags": [],
    "env": {"VCOLL_CAP": "3", "VCOLL_VCAP": "3"},
    "sources": ["datacake-eventual-consistency/src/keyspace/group.rs", "datacake-crdt/src/timestamp.rs"],
    "slice": [{
        "mode": "items", "src": "datacake-eventual-consistency/src/keyspace/group.rs", "out": "group.rs",
        "prelude": "/verif/harness/group/src/prelude.rs",
        "deasync": True,
        "items": [
            {"kind": "type", "name": "KeyspaceMap"},
            {"kind": "struct", "name": "KeyspaceGroup"},
            {"kind": "impl_fns", "name": "KeyspaceGroup", "header": r"impl<S> KeyspaceGroup<S>\s+where\s+S: Storage,\s*\{\s*/// Creates a new",
             "fns": ["get_or_create_keyspace", "load_states", "add_state"]},
        ],
        "append": ['#[cfg(kani)] #[path = "/verif/harness/group/src/contracts.rs"] mod verif_contracts;'],
    }, {
        "mode": "items", "src": "datacake-eventual-consistency/src/keyspace/group.rs", "out": "group_caller.rs",
        "prelude": "/verif/harness/group/src/prelude_caller.rs",
        "deasync": True,
        "auto_const_types": ["Duration"],
        "items": [
            {"kind": "type", "name": "KeyspaceMap"},
            {"kind": "struct", "name": "KeyspaceGroup"},
            {"kind": "impl_fns", "name": "KeyspaceGroup", "header": r"impl<S> KeyspaceGroup<S>\s+where\s+S: Storage,\s*\{\s*/// Creates a new",
             "fns": ["load_states_from_storage"]},
        ],
        "append": ['#[cfg(kani)] #[path = "/verif/harness/group/src/c07_caller.rs"] mod verif_contracts;'],
    }],
    "extraction": "items `type KeyspaceMap`, `struct KeyspaceGroup` and the fns get_or_create_keyspace, load_states_from_storage, load_states, add_state of "
                  "`impl<S> KeyspaceGroup<S>` cut verbatim and pasted after harness/group/src/prelude.rs; the `async` keyword and every `.await` token are deleted",
    "functions": ["KeyspaceGroup::load_states_from_storage", "KeyspaceGroup::load_states", "KeyspaceGroup::get_or_create_keyspace", "KeyspaceGroup::add_state"],
    "assumptions": [
        "the ORSWOT set is a RECORDING stand-in (contracts/recset.rs): the contract is which operations reach the set; what they do to a real set is os_insert/delete_contract + lemmas_restart; storage is a ghost row store (<= 2 keyspaces x <= 2 rows, one row per id)",
        "spawn_keyspace is a stand-in that records the state it is handed; ActorMailbox is an identity; Clock returns any stamp",
        "C18: parking_lot RwLock sections are atomic and no guard is held across an await (checked by reading: guards live in inner blocks); other tasks run only at "
        "the former await points (clock read, actor spawn) and only ever add a binding for an unbound name (rely == the guarantee proved)",
        "async/await de-sugared: cancellation between await points not covered",
    ],
    "timeout_quick": 1200,
}

UNITS["membership"] = {
    "kind": "kani",
    "crate": "harness/membership",
    "harness_mod": "watch::verif_contracts",
    "kani_flags": [],
    "env": {"VCOLL_CAP": "3", "VCOLL_VCAP": "3"},
    "batch": 8, "max_jobs": 8,  # per kani-driver process (it parses every harness's CBMC output in memory: 16 at a time, or > 20 in a row, exhausted its 20 GB address-space limit)
    "sources": ["datacake-node/src/lib.rs", "datacake-node/src/node.rs"],
    "slice": [
        {"mode": "items", "src": "datacake-node/src/node.rs", "out": "node_types.rs",
         "prelude": "/verif/harness/membership/src/prelude_types.rs",
         "items": [{"kind": "type", "name": "NodeMembership"}, {"kind": "struct", "name": "ClusterMember"}]},
        {"mode": "items", "src": "datacake-node/src/lib.rs", "out": "watch.rs",
         "prelude": "/verif/harness/membership/src/prelude_watch.rs",
         "deasync": True,
         "items": [{"kind": "struct", "name": "MembershipChange"}, {"kind": "fn", "name": "watch_membership_changes"}],
         "append": ['#[cfg(kani)] #[path = "/verif/harness/membership/src/contracts.rs"] mod verif_contracts;']},
    ],
    "extraction": "items NodeMembership, ClusterMember (node.rs) and MembershipChange, watch_membership_changes (lib.rs) cut verbatim; `async`/`.await` deleted",
    "functions": ["watch_membership_changes"],
    "assumptions": [
        "snapshot stream, latest-value delta channel, RpcNetwork, NodeSelectorHandle, statistics are recording stand-ins; tracing macros are no-ops",
        "BTreeMap/BTreeSet/Vec -> vcoll concrete collections (capacity 2); BTreeSet<(NodeId, SocketAddr)> keys are identified by (id, IPv4, port) packed in 56 bits (vcoll::VKey)",
        "data-centre names are OPAQUE identifiers: `String` -> env::DcName, `Cow<'static, str>` -> env::DcCow (64-bit order-preserving identity); heap Strings made CBMC run out of memory; "
        "the function only clones, wraps (Cow::Owned) and uses names as map keys",
    ],
    "timeout_quick": 1500,
}

UNITS["selector"] = {
    "kind": "kani",
    "crate": "harness/selector",
    "harness_mod": "selector::verif_contracts",
    "kani_flags": [],
    "env": {"VCOLL_CAP": "3", "VCOLL_VCAP": "9"},
    "batch": 16,
    "sources": ["datacake-node/src/nodes_selector.rs"],
    "slice": [{
        "mode": "items", "src": "datacake-node/src/nodes_selector.rs", "out": "selector.rs",
        "prelude": "/verif/harness/selector/src/prelude.rs",
        "drop_attrs": ["instrument"],
        "items": [
            {"kind": "type", "name": "Nodes"},
            {"kind": "enum", "name": "ConsistencyError"},
            {"kind": "enum", "name": "Consistency"},
            {"kind": "trait", "name": "NodeSelector"},
            {"kind": "struct", "name": "DCAwareSelector"},
            {"kind": "impl", "name": "NodeSelector for DCAwareSelector", "header": r"impl NodeSelector for DCAwareSelector\s*\{"},
            {"kind": "fn", "name": "select_n_nodes"},
            {"kind": "struct", "name": "NodeCycler"},
            {"kind": "impl", "name": "NodeCycler", "header": r"impl NodeCycler\s*\{"},
            {"kind": "impl", "name": "From<Nodes> for NodeCycler", "header": r"impl From<Nodes> for NodeCycler\s*\{"},
            {"kind": "impl", "name": "Iterator for NodeCycler", "header": r"impl Iterator for NodeCycler\s*\{"},
            {"kind": "block", "name": "Op::SetNodes arm of the actor loop in start_node_selector",
             "anchor": r"Op::SetNodes\s*\{\s*data_centers:\s*new_data_centers,?\s*\}\s*=>",
             "wrap_head": "/// hand-written wrapper around the VERBATIM `Op::SetNodes` arm of the actor loop in start_node_selector: the variables the arm uses are parameters, their final values are returned\n"
                          "#[allow(unused_assignments, unused_mut, unused_variables)]\n"
                          "pub fn set_nodes_arm(new_data_centers: BTreeMap<Cow<'static, str>, Nodes>, mut data_centers: BTreeMap<Cow<'static, str>, NodeCycler>, mut total_nodes: usize, "
                          "mut cached_nodes: crate::env::CacheStub) -> (BTreeMap<Cow<'static, str>, NodeCycler>, usize, crate::env::CacheStub) {",
             "wrap_tail": "    (data_centers, total_nodes, cached_nodes)\n}"},
        ],
        "append": ['#[cfg(kani)] #[path = "/verif/harness/selector/src/contracts.rs"] mod verif_contracts;'],
    }],
    "extraction": "items Nodes, ConsistencyError, Consistency, NodeSelector, DCAwareSelector (+ impl NodeSelector), select_n_nodes, NodeCycler (+ impls) cut verbatim from nodes_selector.rs; "
                  "dropped attribute: #[instrument(..)] on select_n_nodes; the `{ .. }` body of the `Op::SetNodes {..} =>` arm of the actor loop in start_node_selector cut verbatim (block slice) and pasted "
                  "into a hand-written wrapper fn whose parameters are the variables the arm uses (dropped: the surrounding loop, the channel, the GetNodes arm and its 2 s cache lookup)",
    "functions": ["DCAwareSelector::select_nodes", "select_n_nodes", "NodeCycler::next", "NodeCycler::from", "start_node_selector (the Op::SetNodes arm of its actor loop)"],
    "assumptions": [
        "rand::thread_rng / IteratorRandom::choose_multiple -> an ARBITRARY sub-selection of the requested size in iteration order (which elements are chosen is nondeterministic; their relative order is not permuted)",
        "SmallVec<[SocketAddr; 5]> / Vec -> vcoll::VVec; BTreeMap -> vcoll concrete map; SocketAddr -> opaque identifier; data-centre names are real Cow::Borrowed(&'static str) (no heap strings); tracing macros are no-ops",
        "layout precondition (what watch_membership_changes installs): every listed data centre is non-empty, addresses are pairwise distinct, the local node is a member of its own data centre, total_nodes is the sum",
        "map storage inline (vcoll feature `inline`): heap objects are untyped byte arrays for CBMC (DESIGN.md 9.11/9.12); layout SHAPE concrete per harness; layouts with >= 3 data centres NOT decided (out of memory)",
        "the selection cache is a stand-in recording only `clear()`; cached selections served by the GetNodes arm for up to 2 s are not under contract",
    ],
    "timeout_quick": 1200,
}

UNITS["poller_glue"] = {
    "kind": "kani",
    "crate": "harness/poller_glue",
    "harness_mod": "glue::verif_contracts",
    "kani_flags": [],
    "env": {"VCOLL_CAP": "2", "VCOLL_VCAP": "3"},
    "sources": ["datacake-eventual-consistency/src/replication/poller.rs", "datacake-eventual-consistency/src/keyspace/mod.rs", "datacake-crdt/src/timestamp.rs"],
    "slice": [
        {"mode": "items", "src": "datacake-eventual-consistency/src/keyspace/mod.rs", "out": "consts.rs",
         "prelude": "/verif/harness/poller_glue/src/prelude_consts.rs",
         "items": [{"kind": "const", "name": "READ_REPAIR_SOURCE_ID"}]},
        {"mode": "items", "src": "datacake-eventual-consistency/src/replication/poller.rs", "out": "glue.rs",
         "prelude": "/verif/harness/poller_glue/src/prelude.rs",
         "drop_attrs": ["instrument"],
         "deasync": True,
         "items": [{"kind": "const", "name": "MAX_NUMBER_OF_DOCS_PER_FETCH"}, {"kind": "fn", "name": "handle_modified"}, {"kind": "fn", "name": "handle_removals"}],
         "append": ['#[cfg(kani)] #[path = "/verif/harness/poller_glue/src/contracts.rs"] mod verif_contracts;']},
    ],
    "extraction": "const READ_REPAIR_SOURCE_ID (keyspace/mod.rs), const MAX_NUMBER_OF_DOCS_PER_FETCH, fn handle_modified, fn handle_removals (poller.rs) cut verbatim; dropped attribute "
                  "#[instrument(..)]; `async`/`.await` deleted",
    "functions": ["handle_removals", "handle_modified"],
    "assumptions": [
        "Del/MultiDel/MultiSet/DocumentMetadata/Document mirror keyspace/messages.rs and core.rs; DocVec (SmallVec) / Vec -> vcoll::VVec (chunks, remove, from_vec modelled); the actor mailbox is a RECORDING "
        "stand-in whose send may fail delivering nothing; the peer client returns one document per requested id (arbitrary stamp) or fails; anyhow::Error is an opaque error",
        "lists of <= 3 documents, far below the 50 000 chunk size: exactly one chunk is exercised (the chunk loop for several chunks is NOT covered)",
    ],
    "timeout_quick": 600,
}

UNITS["rpc_dispatch"] = {
    "kind": "kani",
    "crate": "harness/rpc_dispatch",
    "harness_mod": "dispatch::verif_contracts",
    "kani_flags": [],
    "sources": ["datacake-rpc/src/net/server.rs"],
    "slice": [{
        "mode": "items", "src": "datacake-rpc/src/net/server.rs", "out": "dispatch.rs",
        "prelude": "/verif/harness/rpc_dispatch/src/prelude.rs",
        "deasync": True,
        "items": [{"kind": "fn", "name": "try_handle_request"}],
        "append": ['#[cfg(kani)] #[path = "/verif/harness/rpc_dispatch/src/contracts.rs"] mod verif_contracts;'],
    }],
    "extraction": "fn try_handle_request cut verbatim from net/server.rs; `async`/`.await` deleted; `format!` (text of the refusal) shadowed by an opaque message",
    "functions": ["try_handle_request (net/server.rs)"],
    "assumptions": [
        "ServerState::get_handler is linked by contract (recording stand-in answering arbitrarily); the real registry is unit rpc_registry",
        "http::Request/Parts/Uri/HeaderMap, hyper::Body, crate::body::Body, crate::Status are stand-ins carrying opaque identities; Status keeps the error CODE, the refusal text (format!) is opaque",
        "hyper connection handling, handle_connection/handle_message (response framing) and the handler's own decoding (C12) are outside this unit",
    ],
    "timeout_quick": 600,
}

UNITS["clock"] = {
    "kind": "kani",
    "crate": "harness/clock",
    "harness_mod": "clock::verif_contracts",
    "kani_flags": [],
    "sources": ["datacake-node/src/clock.rs", "datacake-crdt/src/timestamp.rs"],
    "slice": [{
        "mode": "items", "src": "datacake-node/src/clock.rs", "out": "clock.rs",
        "prelude": "/verif/harness/clock/src/prelude.rs",
        "deasync": True,
        "items": [
            {"kind": "const", "name": "CLOCK_BACKPRESSURE_LIMIT"},
            {"kind": "struct", "name": "Clock"},
            {"kind": "impl_fns", "name": "Clock", "header": r"impl Clock\s*\{", "fns": ["register_ts", "get_time"]},
            {"kind": "enum", "name": "Event"},
            {"kind": "fn", "name": "run_clock"},
        ],
        "append": ['#[cfg(kani)] #[path = "/verif/harness/clock/src/contracts.rs"] mod verif_contracts;'],
    }],
    "extraction": "items CLOCK_BACKPRESSURE_LIMIT, Clock, Clock::{register_ts, get_time}, Event, run_clock cut verbatim from clock.rs; `async`/`.await` deleted; "
                  "timestamp.rs via #[path] unedited (cfg(datacake_verif) wall-clock hook on)",
    "functions": ["run_clock", "Clock::get_time", "Clock::register_ts"],
    "assumptions": [
        "flume delivers each event exactly once, in FIFO order, to the single receiver; tokio runs the actor task; oneshot delivers the value to its receiver",
        "actor precondition: counters stay clear of exhaustion (< 60000), the clock starts within MAX_CLOCK_DRIFT of the wall clock, the wall clock may stall but does not run backwards between two events, and the clock is not within 10000 s of the end of the 32-bit range; if send() fails the real actor "
        "panics through expect() -- outside C11, not verified",
        "schedule quantifier reduced to event sequences by the single-owner actor; two steps from an arbitrary state are the induction step",
    ],
    "timeout_quick": 600,
}

import copy
UNITS["actor_bulk"] = copy.deepcopy(UNITS["actor"])
UNITS["actor_bulk"].update({
    "crate": "harness/actor_bulk",
    "env": {"VCOLL_CAP": "3", "VCOLL_VCAP": "4"},
    "functions": ["KeyspaceActor::on_multi_set", "KeyspaceActor::on_multi_del"],
    "timeout_quick": 900,
})
UNITS["actor_bulk"]["slice"][0]["prelude"] = "/verif/harness/actor_bulk/src/prelude.rs"
UNITS["actor_bulk"]["slice"][0]["append"] = ['#[cfg(kani)] #[path = "/verif/harness/actor_bulk/src/contracts.rs"] mod verif_contracts;']
UNITS["actor_bulk"]["assumptions"] = [
    "modular: the ORSWOT set and the store are RECORDING stand-ins; will_apply answers are arbitrary (one fresh bool per call); what the recorded operations do to a real "
    "set and store is the single-operation contracts (ac_on_set, ac_on_del, os_insert_contract, os_delete_contract) composed by lemmas/bulk.rs",
    "Document/DocumentMetadata/message structs mirror core.rs/messages.rs; SmallVec/Vec -> vcoll::VVec (capacity 4); HashSet -> vcoll concrete set",
    "async/await de-sugared (no cancellation between await points)",
]
UNITS["group_caller"] = copy.deepcopy(UNITS["group"])
UNITS["group_caller"]["harness_mod"] = "group_caller::verif_contracts"
UNITS["group_caller"]["gen_unit"] = "group"
UNITS["group_caller"]["env"] = {"VCOLL_CAP": "3", "VCOLL_VCAP": "3"}
UNITS["group_caller"]["assumptions"] = UNITS["group"]["assumptions"] + [
    "caller unit: keyspace names are OPAQUE identifiers -- `String` -> env::KsName and `Cow<'static, str>` -> env::KsCow (64-bit order-preserving identity); measured reason: heap "
    "Strings (allocation, memcpy, memcmp, Cow::clone) made CBMC's propositional reduction run out of memory; the function only moves, wraps (Cow::Owned) and compares names",
    "caller unit: `Vec` -> vcoll::VVec (stable insertion sort for slice::sort_by_key; the std smallsort over raw pointers dominated symbolic execution), BTreeMap -> vcoll concrete map; "
    "counts (keyspaces, rows) concrete per harness, row contents (ids, stamps, tombstone flags) symbolic",
    "load_states is a contract stub recording what it is handed (its body: gr_load_states)"]
UNITS["group_caller"]["functions"] = ["KeyspaceGroup::load_states_from_storage"]

UNITS["orswot_b"] = copy.deepcopy(UNITS["orswot"])
UNITS["orswot_b"].update({
    "crate": "harness/orswot_b",
    "harness_mod": "orswot::verif_contracts_b",
    "extraction": "whole-file copy of orswot.rs; `use std::collections...` lines redirected to vcoll; `Vec`/`vec!` shadowed by the "
                  "fixed-capacity vcoll::VVec (2 lines prepended); one `mod` line appended",
    "functions": ["OrSWotSet::diff", "OrSWotSet::purge_old_deletes", "OrSWotSet::add_raw_tombstones", "OrSWotSet::merge", "NodeVersions::merge"],
    "timeout_quick": 1200, "timeout_thorough": 2400,
    "env": {"VCOLL_CAP": "4"},
    "kani_flags": ["-Z", "stubbing"],
})
UNITS["orswot_b"]["slice"][0].update({
    "prepend": ["use vcoll::vvec::VVec as Vec;",
                "#[allow(unused_macros)] macro_rules! vec { ($($t:tt)*) => { vcoll::vvec!($($t)*) }; }"],
    "append": ['#[cfg(kani)] #[path = "/verif/harness/orswot/src/contracts_b.rs"] mod verif_contracts_b;'],
})
UNITS["orswot_b"]["assumptions"] = UNITS["orswot"]["assumptions"] + [
    "vcoll::VVec (fixed capacity 8, stable insertion sort) stands in for Vec / slice::sort_by_key",
    "concrete vcoll maps iterate BTreeMap in key order and HashMap in insertion order (one of the orders std may produce)",
]

# merge (C03): same generated copy and crate as orswot_b, built with capacities matched to the bound of each harness
# (the unwinding bound and the formula size grow with the capacities: B=1 per side at CAP 4 / VCAP 8 gave 9.8 M variables, at CAP 2 / VCAP 2 3.2 M)
for _u, _cap, _vcap in (("orswot_m1", "2", "2"), ("orswot_m2", "4", "4")):
    UNITS[_u] = copy.deepcopy(UNITS["orswot_b"])
    UNITS[_u]["gen_unit"] = "orswot_b"
    UNITS[_u]["env"] = {"VCOLL_CAP": _cap, "VCOLL_VCAP": _vcap}
    UNITS[_u]["functions"] = ["OrSWotSet::merge", "NodeVersions::merge"]
    UNITS[_u]["timeout_quick"] = 1500
    UNITS[_u]["timeout_thorough"] = 3000
    UNITS[_u]["assumptions"] = UNITS["orswot_b"]["assumptions"] + [
        "modular: inside OrSWotSet::merge the callee NodeVersions::merge is replaced (#[kani::stub]) by its contract stub -- called exactly once, reaches only the version vectors (frame by typing: "
        "it is handed &mut self.versions); the callee's own contract is obligation os_versions_merge",
        "both replicas: entries/tombstone maps concrete with the stated number of keys (they are iterated), cut-off maps ARBITRARY (havoc: any origins, any values)",
    ]

# --------------------------------------------------------------------------- obligations
# name -> dict(unit, harness|file, cls, bound, tier, fn, stmt)
OBLIGATIONS = {}


def _k(name, unit, cls, fn, stmt, tier="quick", bound=None, harness=None, known=None):
    OBLIGATIONS[name] = dict(
        name=name, unit=unit, engine="kani/cbmc+cadical", harness=harness or name, cls=cls,
        bound=bound, tier=tier, fn=fn, stmt=stmt,
    )


def _v(name, file, fn, stmt, expect, tier="quick"):
    OBLIGATIONS[name] = dict(name=name, unit=None, engine="verus/z3", file=file, cls="P", bound=None, tier=tier,
                             fn=fn, stmt=stmt, expect_verified=expect, harness=None)


# ---- unit timestamp
_k("ts_send_contract", "timestamp", "P", "HLCTimestamp::send",
   "valid(clock) => Ok(r): r==clock' > clock, node kept, clock'-wall <= MAX_CLOCK_DRIFT, valid kept; "
   "Err: clock'==clock, ClockDrift only if too far ahead, Overflow only if counter exhausted; any wall reading")
_k("ts_recv_contract", "timestamp", "P", "HLCTimestamp::recv",
   "valid(clock), valid(msg) => Ok: clock'>clock, clock'>msg, node kept, drift bound; Err: clock'==clock; "
   "DuplicatedNode iff same node id; ClockDrift/Overflow only for their stated reasons")
_k("ts_recv_raw_remote", "timestamp", "P", "HLCTimestamp::recv",
   "raw 64-bit remote stamp (fraction may be >= 250, not in the last representable second): no panic, "
   "Ok => clock'>clock, clock'>msg; Err => unchanged")
_k("ts_two_step_send_send", "timestamp", "P", "HLCTimestamp::send",
   "from an arbitrary valid clock and two arbitrary wall readings: second issue > first issue > start")
_k("ts_two_step_recv_send", "timestamp", "P", "HLCTimestamp::recv;send",
   "from an arbitrary clock: a stamp issued after accepting msg is > msg")
_k("ts_two_step_send_recv", "timestamp", "P", "HLCTimestamp::send;recv",
   "from an arbitrary clock: clock after recv > previously issued stamp; failed recv leaves clock unchanged")
_k("ts_pack_roundtrip", "timestamp", "P", "HLCTimestamp::new/pack/accessors/as_u64/from_u64",
   "for all secs<=2^32-1, frac<250, counter, node: accessors return the fields; from_u64(as_u64(x))==x; "
   "datacake_timestamp/unix_timestamp are the duration (+epoch)")
_k("ts_new_truncates", "timestamp", "P", "HLCTimestamp::new/duration_to_parts",
   "for every in-range Duration: seconds kept, fraction = subsec_nanos / 4ms")
_k("ts_order_lex", "timestamp", "P", "derived Ord on HLCTimestamp",
   "for all 2^64 x 2^64 pairs: a<b <=> (seconds,fraction,counter,node) lexicographically less; == likewise")
_k("ts_from_str_total", "timestamp", "P", "<HLCTimestamp as FromStr>::from_str",
   "for every outcome of the four integer parsers: returns Ok or Err, never panics; Ok with in-range fields "
   "carries exactly the parsed fields; result satisfies the type invariant")
for _i, _few in enumerate([True, True, True, True, False, False]):
    _k(f"ts_from_str_fields_{_i}", "timestamp", "P", "<HLCTimestamp as FromStr>::from_str",
       f"real splitn on a concrete input with {_i} field(s): " +
       ("always Err" if _few else "reaches the four-field path; Ok and Err both reachable, no panic"))

# ---- unit orswot (class P: havoc state = arbitrary unbounded set)
_k("os_safe_stamp", "orswot", "P", "NodeVersions::compute_safe_last_stamp",
   "L'(node) == cut(min over sources of (M_s(node) or zero(node))); M unchanged; other origins untouched")
_k("os_before", "orswot", "P", "NodeVersions::is_ts_before_last_observed_event",
   "result == (L(node(ts)) defined and ts < L(node(ts)))")
_k("os_versions_update", "orswot", "P", "NodeVersions::try_update_max_stamp",
   "accepted <=> not before the forgiving cut-off; accepted: M'_source == max(M_source, ts), L' recomputed; refused: nothing changes; frame")
_k("os_will_apply", "orswot", "P", "OrSWotSet::will_apply",
   "result == not before(L, ts) and ts strictly newer than the held entry / tombstone; pure")
_k("os_get", "orswot", "P", "OrSWotSet::get", "get(k) == the live stamp at k")
_k("os_insert_contract", "orswot", "P", "OrSWotSet::insert_with_source",
   "before cut-off: false, unchanged; else slot' == k_insert(slot, ts), r == (slot changed), versions updated, "
   "bystander key/origin untouched, invariants kept; will_apply just before == r (ts != held tombstone stamp)")
_k("os_delete_contract", "orswot", "P", "OrSWotSet::delete_with_source",
   "before cut-off: false, unchanged; else slot' == k_delete(slot, ts), r == (slot changed), versions updated, "
   "frame, invariants kept; will_apply just before == r")
_k("os_cutoff_monotone", "orswot", "P", "insert_with_source / delete_with_source",
   "for stamps >= epoch + 1h: L'(n) >= L(n) after any insert or delete (refusals are permanent)")
_k("os_lacks", "orswot", "P", "OrSWotSet::check_self_then_insert_to",
   "appends (k, ts) iff ts strictly newer than held entry, else than held tombstone, else (nothing held) not before the cut-off; S unchanged")

# ---- unit orswot_b (class B: the iterated collection is concrete and bounded)
_k("os_diff_list", "orswot_b", "B", "OrSWotSet::diff",
   "S arbitrary/unbounded, O with <= 1 live + <= 1 tombstone: changes == live entries of O that S lacks (peer's stamps, once each); "
   "removals likewise from O's tombstones; nothing else listed", bound="|O.entries| <= 1, |O.dead| <= 1", tier="thorough")
_k("os_diff_list_3", "orswot_b", "B", "OrSWotSet::diff", "same contract at the larger bound", bound="|O.entries| <= 2, |O.dead| <= 1", tier="thorough")
_k("os_purge_all", "orswot_b", "B", "OrSWotSet::purge_old_deletes",
   "<= 3 tombstones, entries/versions arbitrary: dropped+returned iff before the cut-off of its origin; entries, newest stamps, cut-offs untouched",
   bound="|dead| <= 3")
_k("os_raw_tombstones", "orswot_b", "B", "OrSWotSet::add_raw_tombstones",
   "<= 2 items: exactly the listed keys become tombstones at the listed stamps; everything else untouched", bound="list <= 2")

# ---- merge (C03)
_MG = ("for every key in play slot'(k) == k_merge(slot_S(k), slot_O(k), S's live stamp before O's cut-off, O's tombstone before S's cut-off); no other key appears; live and dead stay "
       "disjoint; NodeVersions::merge called exactly once (contract stub); stamps distinct unless both sides hold the same operation; cut-offs of both sides arbitrary")
_k("os_merge_slots_1", "orswot_m1", "B", "OrSWotSet::merge", "S and O with <= 1 key each (live or tombstoned, possibly the same key): " + _MG, bound="<= 1 key per side")
_k("os_merge_slots_2", "orswot_m2", "B", "OrSWotSet::merge", "S and O with <= 2 keys each: " + _MG, bound="<= 2 keys per side", tier="thorough")
_k("os_versions_merge", "orswot_m2", "B", "NodeVersions::merge",
   "self ARBITRARY (havoc maps), other with <= 1 origin per source: newest stamps become the pointwise maximum; for every origin the peer mentions the cut-off is recomputed as "
   "cut(min over sources); origins not mentioned and a bystander origin untouched", bound="other: <= 1 origin per source")

# ---- unit rpc_registry (class B: inductive step within 3 services x 2 keys over 4 URIs)
_RB = "4 URIs, 3 services, <= 2 keys per service; arbitrary start state satisfying the registry invariant"
_k("reg_lookup", "rpc_registry", "B", "ServerState::get_handler",
   "for every state satisfying I: a URI is dispatched iff its key is owned by a registered service, to the handler registered for it", bound=_RB)
# add_handlers: the service and WHICH keys are added are concrete per harness (a symbolic service or key set exceeds 20 GB); the registry state
# (who owns URIs 0 and 1, handler identities, empty entries) and the new handler identities stay symbolic. ~6 min / 7 GB each.
# Registered: the two combinations seen to pass on the unchanged tree (384 s and 360 s alone). The other seven (reg_add_k0_s0, _k0_s2, _k01_s1, _k01_s2, _k2_s1, _k13_s1,
# _none_s1; kept in the harness file) ended *undecided* when run four at a time next to two other thorough checks (memory pressure) and could not be re-validated in the
# session: an obligation that is not known to be decided on the unchanged tree is not registered.
for _n, _d, _t in (("reg_add_k0_s1", "one key (URI 0) to service b", "quick"), ("reg_add_k01_s0", "two keys (URIs 0,1) to service a", "quick")):
    _k(_n, "rpc_registry", "B", "ServerState::add_handlers",
       "adding " + _d + " from any state satisfying I in which URIs 2,3 are unowned (a key is unowned or already owned by that service): the added handlers are served under the "
       "service, keys recorded under it (INCLUDING the keys it had before), everything else unchanged, I preserved", bound=_RB + "; added key set and service concrete per harness", tier=_t)
_k("dp_dispatch", "rpc_dispatch", "P", "try_handle_request (net/server.rs)",
   "for ANY path (<= 15 ASCII bytes), any registry answer, any handler reply: the registry is asked for the request's own path byte for byte; a handler exists => it runs exactly "
   "once on this request's peer address, headers and body and its reply or error is returned unchanged; none => Status::unavailable (unknown service) and no handler runs")
for _i, _p in enumerate(("/svc/msg", "/m/v1/s5/P", "//ping/M", "/", "", "noslash", "/a/b/", "/s/m?x=1")):
    _k(f"dp_path_{_i}", "rpc_dispatch", "B", "try_handle_request (net/server.rs)",
       f"the same contract on the concrete path {_p!r} (service/message names containing '/', empty segments, no leading slash, empty path, query suffix are all dispatched by the registry's answer alone)",
       bound="one concrete path")
_k("reg_remove_step", "rpc_registry", "B", "ServerState::remove_handlers",
   "from any state satisfying I: exactly the removed service's handlers disappear (none left behind), every other service keeps every handler, I preserved", bound=_RB)

# ---- unit rpc_view (frames of every length <= 40 bytes; complete in logic, bounded only in buffer length)
for _sz in (1, 8, 24):
    _k(f"view_using_{_sz}", "rpc_view", "P", "DataView::using",
       f"Archived size {_sz}: Ok <=> len >= 4+size and crc(body) == le32(trailer); crc computed over exactly the body; no access outside the buffer "
       "(pointer checks + asserted archived_root precondition); accepted view exposes the frame bytes and the root at the end of the body",
       bound="frame length <= 40 bytes")
for _sz in (8, 24):
    _k(f"view_roundtrip_{_sz}", "rpc_view", "P", "to_view_bytes; DataView::using",
       f"Archived size {_sz}: to_view_bytes == body || le32(crc(body)) for any serialiser output; using(to_view_bytes(v)) is Ok; serialisation failure is reported",
       bound="frame length <= 40 bytes")

# ---- unit actor
_k("ac_on_set", "actor", "P", "KeyspaceActor::on_set",
   "arbitrary unbounded set+store agreeing at k and a bystander, any message, any storage outcome: afterwards they agree at k; bystander untouched; "
   "stale => no-op; storage error => applied to neither; Ok => applied to both")
_k("ac_on_del", "actor", "P", "KeyspaceActor::on_del", "same contract for deletes")
_k("ac_on_multi_set", "actor", "B", "KeyspaceActor::on_multi_set",
   "batch <= 2 distinct ids, arbitrary reported-success subset: agreement at every id and a bystander; only documents reported as written become visible",
   bound="batch <= 2, distinct ids", tier="thorough")
_k("ac_on_multi_del", "actor", "B", "KeyspaceActor::on_multi_del", "same contract for bulk deletes", bound="batch <= 2, distinct ids", tier="thorough")
_k("ac_on_purge", "actor", "B", "KeyspaceActor::on_purge_tombstones",
   "<= 2 tombstones: a tombstone leaves the set iff it left storage (failed removals re-added); only tombstones older than the cut-off; live documents untouched",
   bound="|dead| <= 2")

_k("ac_bulk_dup_id", "actor", "B", "KeyspaceActor::on_multi_set",
   "concrete history on a blank node: one bulk put carrying the SAME id twice, newer document first (stamps symbolic, t_new > t_old), storage succeeds: set and store must hold the same "
   "stamp for that id -- FAILS on the pinned tree (defect D9, known finding: storage is fed in request order, the set in stamp order)", bound="one concrete history (symbolic id and stamps)")
_k("ac_on_diff", "actor", "B", "KeyspaceActor::on_diff",
   "the reply is exactly the difference the set computes against the peer's state (contract os_diff_list, linked through SpecSet): modifications = the peer's live entries this "
   "replica lacks, removals = the peer's tombstones it lacks (whether it holds the key live, as an older tombstone, or not at all), each with the peer's stamp, nothing dropped or added; "
   "the replica is unchanged",
   bound="peer state <= 1 live entry + <= 1 tombstone; own state arbitrary")

# ---- unit group
_GL = ("every stored row is replayed exactly once, in timestamp order, through source 0 into the set handed (via load_states) to that keyspace, and nothing else is "
       "(any order, any tombstone flags, stamps may coincide); a failed read hands over nothing")
for _n, _b, _t in (("gr_load_1x2", "1 keyspace x 2 rows", "quick"), ("gr_load_2x1", "2 keyspaces x 1 row", "quick"), ("gr_load_2x2", "2 keyspaces x 2 rows", "thorough"),
                   ("gr_load_1x1", "1 keyspace x 1 row", "thorough"), ("gr_load_0", "no keyspace", "thorough"),
                   ("gr_load_fail_list", "2 keyspaces, keyspace listing fails", "quick"), ("gr_load_fail_rows", "2 keyspaces, reading the last one fails", "quick")):
    _k(_n, "group_caller", "B", "KeyspaceGroup::load_states_from_storage (callee load_states by contract)", _b + " (counts concrete, row contents symbolic): " + _GL,
       bound=_b, tier=_t)
_k("gr_load_states", "group", "B", "KeyspaceGroup::load_states",
   "<= 2 (name, state) pairs: exactly one actor spawned per pair with exactly that state; name bound to that actor's mailbox and to a change counter", bound="<= 2 states")
_k("gr_binding_preserved", "group", "P", "KeyspaceGroup::get_or_create_keyspace / add_state",
   "arbitrary group map, environment steps at both former await points: result == map'[name]; a binding once set (before the call or by another task in the window) is never replaced")

# ---- unit membership
_MB_PREVS = ((0, 0), (1, 0), (0, 1), (1, 2))
_MB_CURS = tuple((a, b) for a in range(4) for b in range(4) if not (a != 0 and a == b))
MB_STEPS = [f"mb_step_{a}{b}_{c}{d}" for (a, b) in _MB_PREVS for (c, d) in _MB_CURS]
# quick tier: 15 transitions (+ the D6 obligation = 16 harnesses = one batch, one wave on 16 cores): joins, leaves, address change, swap, take-over by the
# other id, both leave, both arrive; `vp check` stops a quick command after 900 s (the full list took 670 s on a busy machine). Thorough: all 52.
_MB_QUICK = {"mb_step_00_12", "mb_step_10_00", "mb_step_10_10", "mb_step_10_20", "mb_step_10_02", "mb_step_10_01", "mb_step_10_12", "mb_step_10_21",
             "mb_step_12_00", "mb_step_12_10", "mb_step_12_02", "mb_step_12_21", "mb_step_12_13", "mb_step_12_23", "mb_step_12_30"}
for _n in MB_STEPS:
    _k(_n, "membership", "B", "watch_membership_changes",
       f"two consecutive snapshots over ids {{self,1,2}}; address of node 1 / node 2 (0 = absent, 1..3 = shared address pool) in the previous / current snapshot = {_n[8:10]} / {_n[11:13]} "
       "(concrete per harness), data centre of every member (2 names) symbolic; the first snapshot is processed from the empty state, the second from the state the first left => "
       "inductive step: joined/left exact (left as members of the PREVIOUS snapshot with the address they had); consumer fold == others(cur); departed unused addresses disconnected, "
       "nothing else; set_nodes gets exactly cur's DC layout",
       bound="2 snapshots x 3 ids (self + two other nodes) x 3 addresses x 2 DCs; who is where is concrete per harness (4 canonical previous x 13 current assignments = 52 transitions, all registered)",
       tier="quick" if _n in _MB_QUICK else "thorough")

_k("mb_slow_subscriber", "membership", "B", "watch_membership_changes + the latest-value delta channel",
   "concrete history: node 1 joins, a second (unchanged) snapshot is processed before the subscriber reads: the subscriber, handed the latest delta only, must still hold node 1 -- "
   "FAILS on the pinned tree (defect D6, known finding: deltas on a latest-value channel)", bound="one concrete history")

# ---- unit selector (C15)
import itertools as _it
SEL_SHAPES = []
for _nd in (1, 2, 3):
    for _sz in _it.product((1, 2, 3), repeat=_nd):
        _full = list(_sz) + [0] * (3 - _nd)
        for _dc in range(_nd):
            for _idx in range(_sz[_dc]):
                SEL_SHAPES.append((f"sel_{_full[0]}{_full[1]}{_full[2]}_{_dc}{_idx}", _nd, sum(_sz)))
# three data centres: every shape tried (111, 211, 222, 321, 333) ran out of memory (the random choice of data centres makes the vector of (&name, &mut cycler) pairs symbolic);
# they stay in the harness file, registered but NOT part of the property. quick tier: shapes with <= 2 data centres and <= 4 nodes (26); thorough: all 42 two-DC shapes
_SEL_QUICK = {n for (n, nd, t) in SEL_SHAPES if nd <= 2 and t <= 4}
for _n, _nd, _t in SEL_SHAPES:
    _k(_n, "selector", "B", "DCAwareSelector::select_nodes / select_n_nodes / NodeCycler",
       f"layout with data-centre sizes {_n[4:7]} (0 = no such data centre), local node = node {_n[9]} of data centre {_n[8]}; EVERY consistency level, EVERY cursor vector (0..=len per data centre = "
       "whatever selections were made before), every outcome of the random data-centre choice: Ok => only current members other than the local node, no duplicates, >= the number the level "
       "requires (exactly n for One/Two/Three, everybody else for All, per-DC majorities for EachQuorum); NotEnoughNodes only when fewer other nodes exist than required (that the cursors left behind are again in 0..=len is checked as the harness's own inductive hypothesis: a breach is undecided, not a violation)",
       bound="<= 3 data centres x <= 3 nodes; shape concrete per harness (all 204 shapes registered)", tier="quick" if _n in _SEL_QUICK else "thorough")
for _i, _d in enumerate(("the empty update", "a only (b left)", "b and c (a left, c arrived)", "a and b with other nodes", "c only (both old data centres left)")):
    _k(f"sel_set_nodes_{_i}", "selector", "B", "start_node_selector: the Op::SetNodes arm of the actor loop",
       "old layout {a: 2 nodes, b: 1 node} with arbitrary cursors, update = " + _d + ": afterwards the layout is EXACTLY the update -- a data centre that is not in it is gone (never selected "
       "again), listed data centres hold exactly the listed nodes (cursor in 0..=len), total == sum, selection cache emptied", bound="one old layout, one concrete update")
SEL_ALL = [n for (n, nd, _b) in SEL_SHAPES if nd <= 2] + [f"sel_set_nodes_{i}" for i in range(5)]

# ---- unit poller_glue (C05: repair glue)
_k("pg_handle_removals", "poller_glue", "B", "handle_removals (poller.rs)",
   "<= 3 listed removals, delivery may fail: [] -> nothing sent; [d] -> exactly one Del on the read-repair source carrying d; longer -> exactly one MultiDel on the read-repair source carrying "
   "every listed (id, stamp) in order; a failed send is reported and delivers nothing", bound="list <= 3")
_k("pg_handle_modified", "poller_glue", "B", "handle_modified (poller.rs)",
   "<= 3 listed modifications, fetch and delivery may fail: exactly the listed ids are fetched from the peer, in order; the fetched documents reach the keyspace in exactly one MultiSet on the "
   "read-repair source with the repair context; progress registered and completed; [] fetches and sends nothing; failures are reported", bound="list <= 3 (one chunk)")

# ---- unit clock
_k("ck_two_events", "clock", "P", "run_clock",
   "arbitrary clock state, any two events, arbitrary wall reading per event: Get replies are strictly increasing in channel order, carry the node id, and a Get after an "
   "accepted Register(remote) is > remote")
_k("ck_get_time", "clock", "P", "Clock::get_time", "sends exactly one Get event and returns the reply delivered on its own oneshot")
_k("ck_register", "clock", "P", "Clock::register_ts", "own stamps ignored; otherwise exactly one Register event carrying the stamp")

# ---- unit actor_bulk (modular bulk contracts)
_AB = ("batch <= 3, ids/stamps symbolic and not assumed distinct, arbitrary will_apply answers and reported-success subset: storage is handed exactly the documents the set "
       "would apply, in the given order; the set receives one operation through the request's source for exactly the documents reported written (all on Ok), in "
       "timestamp order; reply Ok iff storage Ok")
_k("ab_on_multi_set", "actor_bulk", "B", "KeyspaceActor::on_multi_set", _AB, bound="batch <= 3", tier="thorough")
_k("ab_on_multi_del", "actor_bulk", "B", "KeyspaceActor::on_multi_del", _AB, bound="batch <= 3", tier="thorough")
# ab_on_multi_{set,del}_2 (batch <= 2; kept in the harness file) are not registered: they are hardly cheaper than the batch <= 3 versions (455 s under load)

# ---- Verus lemma layer (each file = shared exec kernels proved equal to spec kernels + lemmas)
_v("lemmas_lww", "lemmas/lww.rs", "kernels k_insert/k_delete/k_cut/k_before/k_will_apply/k_lacks/k_max_stamp/k_safe; lemma layer",
   "exec kernel == spec kernel for all 8 kernels; lemma_fold_lww: any arrival order of accepted ops with distinct stamps ends at "
   "as_slot(greatest-stamp op) (induction over Seq<Op>); order independence; insert wins exact tie; will_apply <=> slot changes; "
   "strictly-inside-window => not before cut-off; cut monotone", 20)
_v("lemmas_repair", "lemmas/repair.rs", "lemma layer over sk_lacks / sk_insert / sk_delete",
   "per key and lifted pointwise: item kind; after applying the (accepted) difference the second difference is empty whatever the cut-off became; "
   "repaired == join (greatest stamp, insert wins tie); two-way exchange => identical live ids and stamps; window hypothesis => accepted", 17)
_v("lemmas_purge", "lemmas/purge.rs", "lemma layer over sk_before / sk_will_apply / sk_insert / sk_delete",
   "purged tombstone (d < L): every op from that origin with t <= d is refused now and under any later (larger) cut-off; purging is invisible: "
   "decision and live part identical with and without the tombstone for ANY later op; simulation step preserved under growing cut-off", 13)

_v("lemmas_merge", "lemmas/merge_laws.rs", "lemma layer over sk_merge",
   "sk_merge with both cut-off flags false == join (greatest stamp wins, insert wins a tie) == max under an injective rank: idempotent, commutative, associative, absorbing, per key and "
   "lifted pointwise to whole replicas; folding any sequence of states depends only on the SET folded in (any order, any repetition); window hypothesis => flags false", 29)

_v("lemmas_membership", "lemmas/membership.rs", "lemma layer over membership maps (id -> address)",
   "apply(a, delta(a,b)) == b for ANY a, b; a consumer applying every event holds the last snapshot (induction over the history); holds for any subsequence "
   "of snapshots provided deltas are computed per subscriber", 14)

_v("lemmas_restart", "lemmas/restart.rs", "lemma layer over sk_insert / sk_delete / sk_safe / sk_before",
   "through source 0 alone no stamp is ever before the cut-off (so the restart replay never has a row refused); replaying rows with pairwise distinct ids "
   "into a fresh set leaves exactly the rows (id -> stamp, kind) and nothing else, for any number of rows in any order", 18)

_v("lemmas_bulk", "lemmas/bulk.rs", "lemma layer over sk_safe / sk_max_stamp / sk_before / sk_will_apply",
   "cut(x) <= x; applying an OLDER stamp of the same origin first (either source) keeps a predicted operation acceptable (ascending order); a predicted operation "
   "lands as Live(t)/Dead(t) when each id occurs at most once in the batch", 18, tier="thorough")

# --------------------------------------------------------------------------- properties
# ts_print_parse_0..3 (Display + the real parsers on four concrete stamps, kept in harness/timestamp/src/contracts.rs) are NOT registered: one concrete stamp did not
# finish in 1188 s (core::fmt's padding machinery and str searching at >= 16 bytes are outside CBMC's reach even on concrete values)

PROPERTIES = {
    "C09": {
        "obligations": [
            "ts_send_contract", "ts_recv_contract", "ts_recv_raw_remote",
            "ts_two_step_send_send", "ts_two_step_recv_send", "ts_two_step_send_recv",
            "ts_order_lex",
        ],
        "level": "proof",
        "explanation": "",
        "assumptions": [],
    },
    "C04": {
        "obligations": ["os_safe_stamp", "os_before", "os_versions_update", "os_will_apply", "os_get",
                        "os_insert_contract", "os_delete_contract", "ts_order_lex", "lemmas_lww"],
        "level": "proof", "explanation": "", "assumptions": [],
    },
    "C05": {
        "obligations": ["os_lacks", "os_diff_list", "os_diff_list_3", "ac_on_diff", "os_insert_contract", "os_delete_contract", "pg_handle_removals", "pg_handle_modified", "lemmas_repair"],
        "level": "proof", "explanation": "", "assumptions": [],
    },
    "C08": {
        "obligations": ["os_purge_all", "os_raw_tombstones", "os_before", "os_cutoff_monotone", "os_insert_contract", "os_delete_contract", "os_will_apply", "lemmas_purge"],
        "level": "proof", "explanation": "", "assumptions": [],
    },
    "C02": {
        "obligations": ["ac_on_set", "ac_on_del", "ab_on_multi_set", "ab_on_multi_del", "lemmas_bulk", "ac_on_purge", "ac_bulk_dup_id",
                        "os_will_apply", "os_insert_contract", "os_delete_contract", "os_purge_all", "os_raw_tombstones"],
        "level": "proof", "explanation": "", "assumptions": [],
    },
    "C03": {
        "obligations": ["os_merge_slots_1", "os_versions_merge", "os_before", "lemmas_merge"],
        "level": "other",
        "explanation": "bounded contract checking (class B) of the real OrSWotSet::merge per key (<= 1 key per side, possibly the same key; cut-offs of both sides arbitrary) against the "
                       "five-case merge kernel, with NodeVersions::merge linked by contract and checked separately; the algebra is PROVED (Verus, unbounded): under the window hypothesis the "
                       "kernel is the join of a semilattice, so any order, grouping and repetition of merges gives the same slot for every key",
        "assumptions": ["decided under the property's hypothesis 'all timestamps lie within one forgiveness period' (then no cut-off flag of the merge kernel can be set: lemma_window_no_before); "
                        "the alternative hypothesis (gap-free prefixes of every origin's operations, where the cut-off flags may be set) needs ghost history and is NOT decided"],
    },
    "C07": {
        "obligations": ["gr_load_1x2", "gr_load_2x1", "gr_load_2x2", "gr_load_1x1", "gr_load_0", "gr_load_fail_list", "gr_load_fail_rows", "gr_load_states",
                        "os_insert_contract", "os_delete_contract", "lemmas_restart"],
        "level": "other",
        "explanation": "bounded contract checking (class B) of KeyspaceGroup::load_states_from_storage and load_states: for <= 2 keyspaces x <= 2 metadata rows (counts concrete, "
                       "ids/stamps/tombstone flags symbolic, stamps may coincide) every stored row is replayed exactly once, in timestamp order, through source 0, into the state handed "
                       "to that keyspace's actor, and nothing else is; the unbounded part is proved: what a replayed operation does to a real set (os_insert_contract / os_delete_contract, "
                       "class P) and the Verus induction that replaying any number of rows with distinct ids through source 0 leaves exactly the rows (lemmas_restart)",
        "assumptions": ["'acknowledged => in storage' is C02's Ok postcondition; 'converges with its peers as in C01' is not decided (C01 not applicable)",
                        "crash points: the rebuilt state is a function of storage alone (the contract quantifies over every storage content), so the in-memory state at the crash is irrelevant"],
    },
    "C16": {
        "obligations": MB_STEPS + ["mb_slow_subscriber", "lemmas_membership"],
        "level": "other",
        "explanation": "bounded contract checking (class B): the delta function of watch_membership_changes for one transition from an ARBITRARY previous snapshot "
                       "(self + two other nodes x 3 shared addresses x 2 data centres; who is present at which address is concrete per harness -- 52 transitions, previous snapshot canonical up to renaming of addresses -- data centres symbolic; an inductive step over snapshot histories inside that size) plus the unbounded Verus fold lemma "
                       "(a consumer applying every event holds the last snapshot)",
        "assumptions": [],
    },
    "C15": {
        "obligations": SEL_ALL,
        "level": "other",
        "explanation": "bounded contract checking (class B) of DCAwareSelector::select_nodes, select_n_nodes and NodeCycler sliced from nodes_selector.rs: for every layout shape with <= 3 data "
                       "centres x <= 3 nodes and every choice of the local node (204 shapes, concrete per harness), EVERY consistency level, EVERY cursor vector (= every history of earlier "
                       "selections, an inductive step: the cursors left behind are again in the range the contract starts from) and every outcome of the random data-centre choice",
        "assumptions": [],
    },
    "C18": {
        "obligations": ["gr_binding_preserved"],
        "level": "proof", "explanation": "", "assumptions": [
            "schedule quantifier discharged by a rely/guarantee reduction: one sequential contract per write-locked section, environment steps at await points"],
    },
    "C11": {
        "obligations": ["ck_two_events", "ck_get_time", "ck_register", "ts_send_contract", "ts_recv_contract", "ts_two_step_send_send", "ts_two_step_recv_send"],
        "level": "proof", "explanation": "", "assumptions": [
            "schedules are reduced to sequences by the single-owner actor (channel FIFO / exactly-once delivery assumed, Kani has no threads)"],
    },
    "C12": {
        "obligations": ["view_using_1", "view_using_8", "view_using_24", "view_roundtrip_8", "view_roundtrip_24"],
        "level": "proof",
        "explanation": "",
        "assumptions": ["value equality end to end (rkyv serialise/deserialise) and the single-bit-detection property of CRC-32 are assumed dependencies; "
                        "what is proved is the frame contract of the code in /repo"],
    },
    "C13": {
        "obligations": ["reg_lookup", "reg_remove_step", "reg_add_k0_s1", "reg_add_k01_s0", "dp_dispatch"] + [f"dp_path_{i}" for i in range(8)],
        "level": "other",
        "explanation": "bounded contract checking (class B): one add/remove step from an ARBITRARY registry state satisfying the invariant, "
                       "within 3 services x 2 keys over 4 URIs -- an inductive step, so it covers every add/remove history inside that size; "
                       "not counted as proved because the registry maps are concrete with a capacity bound; the dispatch decision of try_handle_request == the registry's answer "
                       "for the request's own path is proved for every path (class P)",
        "assumptions": ["the dispatch glue try_handle_request is under contract (dp_dispatch: class P, any path; dp_path_*: concrete unusual paths) with the registry linked by contract; "
                        "hyper connection handling and handle_connection/handle_message (response framing) are read, not verified",
                        "add_handlers: service and added key set concrete per harness (two combinations registered: one key to service b, two keys to service a), registry state symbolic"],
    },
    "C10": {
        "obligations": [
            "ts_pack_roundtrip", "ts_new_truncates", "ts_order_lex", "ts_from_str_total",
        ] + [f"ts_from_str_fields_{i}" for i in range(6)],
        "level": "proof",
        "explanation": "",
        "assumptions": [
            "archived form (ArchivedHLCTimestamp::cast) is not compiled (rkyv feature off in the harness crate): "
            "assumed that rkyv's Archived<u64> is the little-endian u64",
            "print-then-parse identity: Display (core::fmt) is outside CBMC's reach at full width; covered by the "
            "bounded grid obligation where registered, otherwise assumed",
        ],
    },
}

# fixed trusted base, repeated in every evidence file
TRUSTED_BASE = [
    "Kani 0.68.0 / CBMC 6.11.0 / CaDiCaL (goto translation of MIR, Kani's models of core/alloc)",
    "Verus 0.2026.09.13 / Z3 (lemma layer)",
    "rustc (Kani toolchain nightly-2026-08-21) compiles /repo sources as the release toolchain does",
    "tools/slice.py extraction (verbatim text; only `use` redirections and dropped proc-macro attributes as listed per unit)",
    "vcoll stand-ins for std::collections / locks / channels (validated differentially, not proved)",
]
