"""Registry: units (harness crates / lemma files), obligations, properties.

An *obligation* is one machine-checked contract clause set: a Kani harness
(class P = complete: loop-free or havoc-state harness over the full symbolic
domain; class B = bounded stand-in with the stated bound) or a Verus file
(class P, every `verified` item counts).  A *property* lists the obligations
whose discharge decides it.
"""

REPO = "/repo"

# --------------------------------------------------------------------------- units
UNITS = {
    "timestamp": {
        "kind": "kani",
        "crate": "harness/timestamp",
        "slice": None,  # compiled straight from /repo via #[path]
        "kani_flags": ["-Z", "stubbing"],
        "sources": ["datacake-crdt/src/timestamp.rs"],
        "extraction": "none: #[path = \"/repo/datacake-crdt/src/timestamp.rs\"] (whole file, unedited, cfg(datacake_verif) hook on)",
        "functions": [
            "HLCTimestamp::new", "HLCTimestamp::send", "HLCTimestamp::recv", "HLCTimestamp::node",
            "HLCTimestamp::counter", "HLCTimestamp::seconds", "HLCTimestamp::fractional",
            "HLCTimestamp::unix_timestamp", "HLCTimestamp::datacake_timestamp", "HLCTimestamp::as_u64",
            "HLCTimestamp::from_u64", "<HLCTimestamp as FromStr>::from_str", "pack", "duration_to_parts",
            "parts_as_duration", "derived Ord/PartialOrd/Eq on HLCTimestamp",
        ],
        "assumptions": [
            "wall clock reading is inside the representable range (<= 2^32-1 s after the datacake epoch, i.e. before year 2159)",
            "std::time::Duration arithmetic and core integer parsing are as compiled by Kani from the Rust std sources",
            "ts_from_str_*: <u64|u8 as FromStr>::from_str and u16::from_str_radix are replaced by stubs returning an arbitrary Ok(value) or Err (assumed: std integer parsing itself does not panic)",
        ],
    },
}

UNITS["orswot"] = {
    "kind": "kani",
    "crate": "harness/orswot",
    "harness_mod": "orswot::verif_contracts",
    "kani_flags": [],
    "sources": ["datacake-crdt/src/orswot.rs", "datacake-crdt/src/timestamp.rs"],
    "slice": [{
        "mode": "whole", "src": "datacake-crdt/src/orswot.rs", "out": "orswot.rs",
        "use_rewrites": [(r"std::collections", "vcoll")], "min_rewrites": 2,
        "require": [r"fn insert_with_source", r"fn delete_with_source", r"fn will_apply", r"fn try_update_max_stamp",
                    r"fn compute_safe_last_stamp", r"fn is_ts_before_last_observed_event", r"fn check_self_then_insert_to",
                    r"fn purge_old_deletes", r"fn diff", r"fn merge"],
        "append": ['#[cfg(kani)] #[path = "/verif/harness/orswot/src/contracts.rs"] mod verif_contracts;'],
    }],
    "extraction": "whole-file copy of orswot.rs; `use std::collections...` lines redirected to vcoll; one `mod` line appended to mount the contract module; timestamp.rs via #[path] unedited",
    "functions": [
        "NodeVersions::try_update_max_stamp", "NodeVersions::compute_safe_last_stamp",
        "NodeVersions::is_ts_before_last_observed_event", "OrSWotSet::will_apply", "OrSWotSet::get",
        "OrSWotSet::insert_with_source", "OrSWotSet::delete_with_source", "OrSWotSet::check_self_then_insert_to",
    ],
    "assumptions": [
        "vcoll havoc maps model std BTreeMap/HashMap get/insert/remove/entry on the touched keys (assumed contract on std::collections, validated differentially)",
        "every stored stamp satisfies the HLCTimestamp type invariant (fraction < 250) and newest stamps are keyed by their own origin node (wf_origin)",
        "state invariant assumed on entry and proved on exit: live/dead disjoint at the touched keys; cut-off == cut(min over sources) at the touched origins",
        "real-build constants: N = 2 sources, FORGIVENESS_PERIOD = 3600 s (cfg!(test) is false in the harness crate)",
    ],
    "timeout_quick": 900,
}

# --------------------------------------------------------------------------- obligations
# name -> dict(unit, harness|file, cls, bound, tier, fn, stmt)
OBLIGATIONS = {}


def _k(name, unit, cls, fn, stmt, tier="quick", bound=None, harness=None, known=None):
    OBLIGATIONS[name] = dict(
        name=name, unit=unit, engine="kani/cbmc+cadical", harness=harness or name, cls=cls,
        bound=bound, tier=tier, fn=fn, stmt=stmt,
    )


# ---- unit timestamp
_k("ts_send_contract", "timestamp", "P", "HLCTimestamp::send",
   "valid(clock) => Ok(r): r==clock' > clock, node kept, clock'-wall <= MAX_CLOCK_DRIFT, valid kept; "
   "Err: clock'==clock, ClockDrift only if too far ahead, Overflow only if counter exhausted; any wall reading")
_k("ts_recv_contract", "timestamp", "P", "HLCTimestamp::recv",
   "valid(clock), valid(msg) => Ok: clock'>clock, clock'>msg, node kept, drift bound; Err: clock'==clock; "
   "DuplicatedNode iff same node id; ClockDrift/Overflow only for their stated reasons")
_k("ts_recv_raw_remote", "timestamp", "P", "HLCTimestamp::recv",
   "raw 64-bit remote stamp (fraction may be >= 250, not in the last representable second): no panic, "
   "Ok => clock'>clock, clock'>msg; Err => unchanged")
_k("ts_two_step_send_send", "timestamp", "P", "HLCTimestamp::send",
   "from an arbitrary valid clock and two arbitrary wall readings: second issue > first issue > start")
_k("ts_two_step_recv_send", "timestamp", "P", "HLCTimestamp::recv;send",
   "from an arbitrary clock: a stamp issued after accepting msg is > msg")
_k("ts_two_step_send_recv", "timestamp", "P", "HLCTimestamp::send;recv",
   "from an arbitrary clock: clock after recv > previously issued stamp; failed recv leaves clock unchanged")
_k("ts_pack_roundtrip", "timestamp", "P", "HLCTimestamp::new/pack/accessors/as_u64/from_u64",
   "for all secs<=2^32-1, frac<250, counter, node: accessors return the fields; from_u64(as_u64(x))==x; "
   "datacake_timestamp/unix_timestamp are the duration (+epoch)")
_k("ts_new_truncates", "timestamp", "P", "HLCTimestamp::new/duration_to_parts",
   "for every in-range Duration: seconds kept, fraction = subsec_nanos / 4ms")
_k("ts_order_lex", "timestamp", "P", "derived Ord on HLCTimestamp",
   "for all 2^64 x 2^64 pairs: a<b <=> (seconds,fraction,counter,node) lexicographically less; == likewise")
_k("ts_from_str_total", "timestamp", "P", "<HLCTimestamp as FromStr>::from_str",
   "for every outcome of the four integer parsers: returns Ok or Err, never panics; Ok with in-range fields "
   "carries exactly the parsed fields; result satisfies the type invariant")
for _i, _few in enumerate([True, True, True, True, False, False]):
    _k(f"ts_from_str_fields_{_i}", "timestamp", "P", "<HLCTimestamp as FromStr>::from_str",
       f"real splitn on a concrete input with {_i} field(s): " +
       ("always Err" if _few else "reaches the four-field path; Ok and Err both reachable, no panic"))

# ---- unit orswot (class P: havoc state = arbitrary unbounded set)
_k("os_safe_stamp", "orswot", "P", "NodeVersions::compute_safe_last_stamp",
   "L'(node) == cut(min over sources of (M_s(node) or zero(node))); M unchanged; other origins untouched")
_k("os_before", "orswot", "P", "NodeVersions::is_ts_before_last_observed_event",
   "result == (L(node(ts)) defined and ts < L(node(ts)))")
_k("os_versions_update", "orswot", "P", "NodeVersions::try_update_max_stamp",
   "accepted <=> not before the forgiving cut-off; accepted: M'_source == max(M_source, ts), L' recomputed; refused: nothing changes; frame")
_k("os_will_apply", "orswot", "P", "OrSWotSet::will_apply",
   "result == not before(L, ts) and ts strictly newer than the held entry / tombstone; pure")
_k("os_get", "orswot", "P", "OrSWotSet::get", "get(k) == the live stamp at k")
_k("os_insert_contract", "orswot", "P", "OrSWotSet::insert_with_source",
   "before cut-off: false, unchanged; else slot' == k_insert(slot, ts), r == (slot changed), versions updated, "
   "bystander key/origin untouched, invariants kept; will_apply just before == r (ts != held tombstone stamp)")
_k("os_delete_contract", "orswot", "P", "OrSWotSet::delete_with_source",
   "before cut-off: false, unchanged; else slot' == k_delete(slot, ts), r == (slot changed), versions updated, "
   "frame, invariants kept; will_apply just before == r")
_k("os_cutoff_monotone", "orswot", "P", "insert_with_source / delete_with_source",
   "for stamps >= epoch + 1h: L'(n) >= L(n) after any insert or delete (refusals are permanent)")
_k("os_lacks", "orswot", "P", "OrSWotSet::check_self_then_insert_to",
   "appends (k, ts) iff ts strictly newer than held entry, else than held tombstone, else (nothing held) not before the cut-off; S unchanged")

# --------------------------------------------------------------------------- properties
PROPERTIES = {
    "C09": {
        "obligations": [
            "ts_send_contract", "ts_recv_contract", "ts_recv_raw_remote",
            "ts_two_step_send_send", "ts_two_step_recv_send", "ts_two_step_send_recv",
            "ts_order_lex",
        ],
        "level": "proof",
        "explanation": "",
        "assumptions": [],
    },
    "C04": {
        "obligations": ["os_safe_stamp", "os_before", "os_versions_update", "os_will_apply", "os_get",
                        "os_insert_contract", "os_delete_contract", "ts_order_lex"],
        "level": "proof", "explanation": "", "assumptions": [],
    },
    "C10": {
        "obligations": [
            "ts_pack_roundtrip", "ts_new_truncates", "ts_order_lex", "ts_from_str_total",
        ] + [f"ts_from_str_fields_{i}" for i in range(6)],
        "level": "proof",
        "explanation": "",
        "assumptions": [
            "archived form (ArchivedHLCTimestamp::cast) is not compiled (rkyv feature off in the harness crate): "
            "assumed that rkyv's Archived<u64> is the little-endian u64",
            "print-then-parse identity: Display (core::fmt) is outside CBMC's reach at full width; covered by the "
            "bounded grid obligation where registered, otherwise assumed",
        ],
    },
}

# fixed trusted base, repeated in every evidence file
TRUSTED_BASE = [
    "Kani 0.68.0 / CBMC 6.11.0 / CaDiCaL (goto translation of MIR, Kani's models of core/alloc)",
    "Verus 0.2026.09.13 / Z3 (lemma layer)",
    "rustc (Kani toolchain nightly-2026-08-21) compiles /repo sources as the release toolchain does",
    "tools/slice.py extraction (verbatim text; only `use` redirections and dropped proc-macro attributes as listed per unit)",
    "vcoll stand-ins for std::collections / locks / channels (validated differentially, not proved)",
]
