#!/bin/bash
# usage: run_seeded.sh <seed id> <property> [tier] [--only list]
# Applies seeded/<id>/patch.diff to /repo, runs the property's check, reverts /repo. Prints the exit code.
id=$1; prop=$2; tier=${3:-quick}
if [ $# -ge 3 ]; then shift 3; else shift $#; fi
cd /verif
git -C /repo diff --quiet || { echo "/repo not clean"; exit 9; }
git -C /repo apply /verif/seeded/$id/patch.diff || { echo "patch does not apply"; exit 9; }
./check $prop --tier $tier "$@" > build/seeded-$id-$prop.log 2>&1
rc=$?
git -C /repo checkout -- .
echo "seed=$id property=$prop tier=$tier exit=$rc  $(grep -c '^VIOLATION' build/seeded-$id-$prop.log) violation line(s)"
grep '^VIOLATION\|failed obligation' build/seeded-$id-$prop.log | cut -c1-260 | head -6
