#!/usr/bin/env python3
"""Regenerates MANIFEST.json from tools/registry.py (claimed properties) and tools/manifest_text.py."""
import json, os, sys
ROOT = os.path.dirname(os.path.dirname(os.path.abspath(__file__)))
sys.path.insert(0, os.path.join(ROOT, "tools"))
import registry, manifest_text as T

props = [json.loads(l) for l in open(os.path.join(ROOT, "properties.jsonl"))]
checks, na = [], []
for p in props:
    pid = p["id"]
    if pid in registry.PROPERTIES and pid in T.CLAIMED:
        c = T.CLAIMED[pid]
        checks.append({
            "property_id": pid,
            "quick_cmd": f"./check {pid} --tier quick",
            "thorough_cmd": f"./check {pid} --tier thorough",
            "evidence_file": f"/verif/evidence/{pid}.json",
            "replay_cmd_template": f"./check {pid} --replay {{path}}",
            "engine": c["engine"],
            "level_claimed": {"category": registry.PROPERTIES[pid]["level"], "text": c["text"], "design_ref": c["design_ref"]},
            "level_note": c["note"],
            "technique": c["technique"],
        })
    else:
        na.append({"property_id": pid, "reason": T.NOT_APPLICABLE.get(pid, "check not built yet (see DESIGN.md section 4)")})
m = {
    "version": 1,
    "setup_cmd": T.SETUP_CMD,
    "hooks": T.HOOKS,
    "engines": T.ENGINES,
    "checks": checks,
    "notes": T.NOTES,
    "not_applicable": na,
}
json.dump(m, open(os.path.join(ROOT, "MANIFEST.json"), "w"), indent=1)
print(f"claimed {len(checks)}, not applicable {len(na)}")
