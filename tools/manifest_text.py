SETUP_CMD = "./setup.sh"
HOOKS = {
    "guard": "datacake_verif",
    "enable": "RUSTFLAGS='--cfg datacake_verif' (set by ./check for every harness crate; the harness crates include or slice /repo sources, /repo's own Cargo build is never given the flag)",
    "baseline_off_cmd": "cd /repo && cargo test --workspace --no-fail-fast --offline",
    "source_commits": ["8eb09df"],
    "add_only": True,
}
ENGINES = [
    {"name": "kani", "path": "cargo kani (0.68.0, CBMC 6.11.0, CaDiCaL)", "serves_properties": ["C02", "C04", "C05", "C08", "C09", "C10", "C11", "C12", "C13", "C18"],
     "kind_free_text": "contract harnesses (assume pre / call real function text / assert post), loop-free over full symbolic domain"},
    {"name": "verus", "path": "verus 0.2026.09.13 (Z3)", "serves_properties": ["C04", "C05", "C08"],
     "kind_free_text": "lemma layer: unbounded induction over sequences/maps on the kernels the Kani contracts are stated in"},
]
NOTES = "See DESIGN.md. exit 0 = all obligations discharged; exit 1 = VIOLATION (failed obligation, replayed natively where Kani gives a counterexample); exit 2 = undecided (lost anchor, unsupported construct, model limit, timeout) and never a VIOLATION line."

def _c(technique, text, ref, note, engine="kani+verus"):
    return dict(engine=engine, technique=technique, text=text, design_ref=ref, note=note)


_CB = "contract-based deductive verification"
CLAIMED = {
    "C02": _c(
        _CB + ": Kani/CBMC contract harnesses {Agree /\\ wf} handler {Agree /\\ wf} on the message handlers sliced from keyspace/actor.rs, callees linked by contract "
        "(SpecSet = ORSWOT kernels; ghost store = Storage contract), arbitrary unbounded set and store (havoc maps); bulk handlers bounded (batch <= 2)",
        "Proof for single set/delete requests: from ANY set and store that agree at the touched id (and a bystander), for any message and any storage outcome, they agree "
        "afterwards; applied to both or to neither. The ORSWOT contracts the handlers rely on (will_apply predicts insert/delete; kernels) are discharged on the real orswot.rs "
        "in the same check. Bulk and purge handlers are bounded stand-ins (thorough tier), listed separately and not counted.",
        "DESIGN.md section 4, C02",
        "Trusted: ghost store is the Storage contract; SpecSet/ORSWOT equivalence is the os_* obligations; async/await de-sugared (no cancellation); puppet plumbing unverified."),
    "C04": _c(
        _CB + ": Kani/CBMC contracts on the verbatim orswot.rs text (try_update_max_stamp, compute_safe_last_stamp, will_apply, insert/delete_with_source) over an arbitrary "
        "unbounded set (lazy-havoc maps), then a Verus induction (any arrival order ends at the greatest stamp) over the kernels those contracts are stated in",
        "Proof: per call, for every set of any size, key, 64-bit stamp and source, an accepted insert/delete acts as the LWW kernel, the return value and the will-apply "
        "prediction are true exactly when the key's slot changed, nothing inside the forgiveness window is refused; Verus lifts this to every finite sequence and every arrival order.",
        "DESIGN.md section 4, C04",
        "Trusted: vcoll models std maps on the touched keys; stamps satisfy the type invariant; real-build constants (N=2, forgiveness 3600 s)."),
    "C05": _c(
        _CB + ": Kani contract on check_self_then_insert_to (arbitrary unbounded set) == the `lacks` kernel; bounded contract for the diff list shape; Verus lemmas: applying the "
        "difference leaves the second difference empty, one two-way exchange yields identical live ids and stamps",
        "Proof of the listing rule per item (sentence 1) for any set; Verus proof of the repair fixpoint and symmetry per key, lifted pointwise, under the stated acceptance "
        "(window) hypothesis. The shape of the two lists over a whole peer state is a bounded stand-in (thorough tier).",
        "DESIGN.md section 4, C05",
        "Window hypothesis => acceptance is a lemma; that every stamp in play is inside one window is the property's own hypothesis. poller.rs glue (handle_removals/modified) is read, not verified."),
    "C08": _c(
        _CB + ": Kani contracts on purge_old_deletes (bounded tombstone map), is_ts_before_last_observed_event, insert/delete (cut-off monotone, refusals change nothing) on the real "
        "orswot.rs; Verus lemmas: purged deletes stay refused under any later cut-off, purging is invisible to every later operation (simulation step)",
        "Proof of the local facts for any set: purge removes only tombstones older than the cut-off and never touches live ids or versions; the cut-off never moves backwards; anything "
        "not newer than a purged delete from that origin is refused forever; with and without the tombstone every later operation decides and lands identically.",
        "DESIGN.md section 4, C08",
        "The cluster sentence (timely delivery => same convergence) is reduced to these local facts plus the ASSUMED timing step 'delay + skew < forgiveness => not older than any replica's cut-off'. Stamps >= epoch + 1 h."),
    "C09": dict(
        engine="kani",
        technique=_CB + ": Kani/CBMC contract harnesses on HLCTimestamp::send/recv compiled straight from /repo, full 64-bit domain, arbitrary injected wall clock; two-step induction from an arbitrary clock state",
        text="Proof: pre/postconditions of send and recv (strictly increasing, own node id, drift bound, error => unchanged, error reasons) are discharged by CBMC for every clock value, every remote stamp and every wall-clock reading (stalled, backwards, ahead); loop-free, so complete. Histories follow by induction: each step's contract is proved from an arbitrary state.",
        design_ref="DESIGN.md section 4, C09",
        note="Assumes wall clock <= 2^32-1 s after the datacake epoch; std Duration arithmetic as compiled by Kani; the cfg(datacake_verif) hook only replaces the SystemTime read.",
    ),
    "C10": dict(
        engine="kani",
        technique=_CB + ": Kani/CBMC contract harnesses on new/pack/accessors/Ord/from_str of the real timestamp.rs; std integer parsers havocked by stubs so from_str is proved total for every parse outcome",
        text="Proof: pack/accessor/from_u64 round trips and the lexicographic order are discharged for all field values (all 2^64 pairs for the order); from_str is proved panic-free and field-exact for every outcome of the four integer parsers, and the real splitn runs on inputs with 0..5 fields.",
        design_ref="DESIGN.md section 4, C10",
        note="Not covered: Display formatting (core::fmt) at full width and the rkyv archived form (assumed). Integer parsers are assumed panic-free (stubbed).",
    ),
    "C11": _c(
        _CB + ": Kani/CBMC contracts on run_clock, Clock::get_time and Clock::register_ts sliced from datacake-node/src/clock.rs (FIFO stand-in channel, arbitrary wall "
        "reading per event), composed with the send/recv contracts of the real HLCTimestamp",
        "Proof under the stated channel assumption: the single-owner actor turns every schedule into an event sequence; from an ARBITRARY clock state any two events produce "
        "strictly increasing, own-node stamps, a stamp requested after an accepted remote stamp exceeds it, and each caller receives the reply to its own request. Two steps from an arbitrary state are the induction step.",
        "DESIGN.md section 4, C11",
        "ASSUMED: flume FIFO/exactly-once delivery to a single receiver, tokio runs the actor, no wall-clock regression between two events, counters clear of exhaustion (else the real actor panics through expect()).", engine="kani"),
    "C12": _c(
        _CB + ": Kani/CBMC contracts on DataView::using and to_view_bytes sliced from rkyv_tooling, crc32fast as an uninterpreted function, archived_root's safety precondition asserted, frames of every length <= 40 bytes",
        "Proof of the frame contract: accepted <=> long enough for the fixed-size part plus trailer AND trailer == checksum(body); no access outside the buffer; sender's frame is accepted.",
        "DESIGN.md section 4, C12",
        "ASSUMED dependencies: rkyv (de)serialisation correctness (value equality end to end, Status round trip) and CRC-32's single-bit error detection. Archived sizes 1/8/24, alignment 1.", engine="kani"),
    "C13": _c(
        _CB + " (bounded): Kani inductive-step contracts on ServerState::add_handlers/remove_handlers/get_handler sliced from server.rs, from an arbitrary registry state satisfying the invariant",
        "Bounded contract checking: one add/remove step from ANY registry state satisfying the invariant within 3 services x 2 keys over 4 URIs, observed through get_handler for every URI; "
        "an inductive step, hence every add/remove history inside that size.",
        "DESIGN.md section 4, C13",
        "Locks are exclusive cells; crate::hash injective on registered URIs; HTTP glue in net/server.rs read, not verified.", engine="kani"),
    "C18": _c(
        _CB + ": rely/guarantee reduction -- one sequential Kani contract on get_or_create_keyspace/add_state sliced from group.rs with an arbitrary (havoc) group map and environment steps at "
        "both former await points",
        "Proof (under lock atomicity): every write-locked section preserves an existing binding and the caller gets the bound mailbox; if every writer guarantees that, a name's binding "
        "never changes once set, whatever the interleaving.",
        "DESIGN.md section 4, C18",
        "ASSUMED: parking_lot sections are atomic, no guard across an await, other tasks act only at await points and only add bindings for unbound names (the rely).", engine="kani"),
}

NOT_APPLICABLE = {
    "C03": "merge could not be brought within the verifier's reach: the bounded Kani contract for OrSWotSet::merge with ONE key per side (harness os_merge_kernel, kept in the tree) did not "
           "finish in 40 min / 20 GB, and Verus rejects the entry-API/closure idioms of orswot.rs; without a code-level obligation the algebraic lemmas over the merge kernel would prove a model",
    "C07": "KeyspaceGroup::load_states_from_storage could not be brought within the verifier's reach: with vcoll stand-ins, with the callee load_states replaced by a contract stub, and with "
           "the real std collections under concrete counts, the bounded Kani contract (1 keyspace x 2 rows) exhausts 24-40 GB or 20 min; load_states alone (gr_load_states) and the "
           "unbounded Verus replay lemma (lemmas/restart.rs) are discharged but do not decide the property without the caller, so it is not claimed",
    "C15": "DCAwareSelector::select_nodes / select_n_nodes (iterator adapters over &mut map entries, rand::choose_multiple, rotating cursors) were not brought under contract: functions of "
           "comparable shape (watch_membership_changes, load_states_from_storage) already exceed CBMC's memory in this sandbox; defect D7 found by reading is described in DESIGN.md, not fixed",
    "C16": "watch_membership_changes could not be brought within the verifier's reach: the bounded Kani contract for ONE transition over one other node exhausts 24 GB with the vcoll "
           "stand-ins and times out (20 min) with the real std collections under concrete scenarios; the unbounded Verus fold lemma (lemmas/membership.rs) is discharged and defect D5 was "
           "demonstrated natively and repaired (fix commit 4f8132e), but the property is not claimed",
    "C01": "whole-cluster convergence over all histories, delivery schedules and repair orders: a multi-process history property with no function boundary to carry a postcondition; its single-node ingredients are decided under C02/C04/C05/C07/C08",
    "C06": "spans issuer, transport and N remote nodes (eventual, cross-process); contracts decide only its local ingredients (selection count under C15, write-before-reply under C02)",
    "C14": "schedule/fault quantifier over hyper/h2/tokio/turmoil connection glue; Kani has no concurrency support and no function in /repo owns the behaviour",
    "C17": "behaviour is SQL text executed by the SQLite C engine and LMDB through FFI; no contract within reach of Kani or Verus can express it",
    "C19": "depends on rkyv's archive layout and an unsafe from_bytes_unchecked over std maps; far beyond CBMC (std collections intractable, see DESIGN.md section 1) and vstd has no model of rkyv",
}
