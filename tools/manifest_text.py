SETUP_CMD = "./setup.sh"
HOOKS = {
    "guard": "datacake_verif",
    "enable": "RUSTFLAGS='--cfg datacake_verif' (set by ./check for every harness crate; the harness crates include or slice /repo sources, /repo's own Cargo build is never given the flag)",
    "baseline_off_cmd": "cd /repo && cargo test --workspace --no-fail-fast --offline",
    "source_commits": ["8eb09df"],
    "add_only": True,
}
ENGINES = [
    {"name": "kani", "path": "cargo kani (0.68.0, CBMC 6.11.0, CaDiCaL)", "serves_properties": ["C02", "C03", "C04", "C05", "C07", "C08", "C09", "C10", "C11", "C12", "C13", "C15", "C16", "C18"],
     "kind_free_text": "contract harnesses (assume pre / call real function text / assert post), loop-free over full symbolic domain"},
    {"name": "verus", "path": "verus 0.2026.09.13 (Z3)", "serves_properties": ["C02", "C03", "C04", "C05", "C07", "C08", "C16"],
     "kind_free_text": "lemma layer: unbounded induction over sequences/maps on the kernels the Kani contracts are stated in"},
]
NOTES = "See DESIGN.md. exit 0 = all obligations discharged; exit 1 = VIOLATION (failed obligation, replayed natively where Kani gives a counterexample); exit 2 = undecided (lost anchor, unsupported construct, model limit, timeout) and never a VIOLATION line."

def _c(technique, text, ref, note, engine="kani+verus"):
    return dict(engine=engine, technique=technique, text=text, design_ref=ref, note=note)


_CB = "contract-based deductive verification"
CLAIMED = {
    "C02": _c(
        _CB + ": Kani/CBMC contract harnesses {Agree /\\ wf} handler {Agree /\\ wf} on the message handlers sliced from keyspace/actor.rs, callees linked by contract "
        "(SpecSet = ORSWOT kernels; ghost store = Storage contract), arbitrary unbounded set and store (havoc maps); bulk handlers bounded (batch <= 2)",
        "Proof for single set/delete requests: from ANY set and store that agree at the touched id (and a bystander), for any message and any storage outcome, they agree "
        "afterwards; applied to both or to neither. The ORSWOT contracts the handlers rely on (will_apply predicts insert/delete; kernels) are discharged on the real orswot.rs "
        "in the same check. Bulk and purge handlers are bounded stand-ins (bulk: thorough tier), listed separately and not counted. KNOWN FINDING D9: a bulk request carrying one id twice, "
        "newer document first, leaves storage on the older document (obligation ac_bulk_dup_id, printed as KNOWN-FINDING).",
        "DESIGN.md section 4, C02",
        "Trusted: ghost store is the Storage contract; SpecSet/ORSWOT equivalence is the os_* obligations; async/await de-sugared (no cancellation); puppet plumbing unverified."),
    "C04": _c(
        _CB + ": Kani/CBMC contracts on the verbatim orswot.rs text (try_update_max_stamp, compute_safe_last_stamp, will_apply, insert/delete_with_source) over an arbitrary "
        "unbounded set (lazy-havoc maps), then a Verus induction (any arrival order ends at the greatest stamp) over the kernels those contracts are stated in",
        "Proof: per call, for every set of any size, key, 64-bit stamp and source, an accepted insert/delete acts as the LWW kernel, the return value and the will-apply "
        "prediction are true exactly when the key's slot changed, nothing inside the forgiveness window is refused; Verus lifts this to every finite sequence and every arrival order.",
        "DESIGN.md section 4, C04",
        "Trusted: vcoll models std maps on the touched keys; stamps satisfy the type invariant; real-build constants (N=2, forgiveness 3600 s)."),
    "C05": _c(
        _CB + ": Kani contract on check_self_then_insert_to (arbitrary unbounded set) == the `lacks` kernel; bounded contract for the diff list shape; bounded contracts on the repair glue handle_removals / handle_modified sliced from poller.rs (recording actor mailbox and peer client); Verus lemmas: applying the "
        "difference leaves the second difference empty, one two-way exchange yields identical live ids and stamps",
        "Proof of the listing rule per item (sentence 1) for any set; Verus proof of the repair fixpoint and symmetry per key, lifted pointwise, under the stated acceptance "
        "(window) hypothesis. The shape of the two lists over a whole peer state is a bounded stand-in (thorough tier); the actor's on_diff reply == that difference, unchanged (bounded: peer "
        "state <= 1 live + 1 tombstone), and the repair glue turns it into exactly the right messages (bounded: lists <= 3).",
        "DESIGN.md section 4, C05",
        "Window hypothesis => acceptance is a lemma; that every stamp in play is inside one window is the property's own hypothesis. The repair glue is checked for lists <= 3 (one fetch chunk); the surrounding poller loop (get_keyspace_diff, begin_keyspace_sync spawning the two tasks) is read, not verified."),
    "C08": _c(
        _CB + ": Kani contracts on purge_old_deletes (bounded tombstone map), is_ts_before_last_observed_event, insert/delete (cut-off monotone, refusals change nothing) on the real "
        "orswot.rs; Verus lemmas: purged deletes stay refused under any later cut-off, purging is invisible to every later operation (simulation step)",
        "Proof of the local facts for any set: purge removes only tombstones older than the cut-off and never touches live ids or versions; the cut-off never moves backwards; anything "
        "not newer than a purged delete from that origin is refused forever; with and without the tombstone every later operation decides and lands identically.",
        "DESIGN.md section 4, C08",
        "The cluster sentence (timely delivery => same convergence) is reduced to these local facts plus the ASSUMED timing step 'delay + skew < forgiveness => not older than any replica's cut-off'. Stamps >= epoch + 1 h."),
    "C09": dict(
        engine="kani",
        technique=_CB + ": Kani/CBMC contract harnesses on HLCTimestamp::send/recv compiled straight from /repo, full 64-bit domain, arbitrary injected wall clock; two-step induction from an arbitrary clock state",
        text="Proof: pre/postconditions of send and recv (strictly increasing, own node id, drift bound, error => unchanged, error reasons) are discharged by CBMC for every clock value, every remote stamp and every wall-clock reading (stalled, backwards, ahead); loop-free, so complete. Histories follow by induction: each step's contract is proved from an arbitrary state.",
        design_ref="DESIGN.md section 4, C09",
        note="Assumes wall clock <= 2^32-1 s after the datacake epoch; std Duration arithmetic as compiled by Kani; the cfg(datacake_verif) hook only replaces the SystemTime read.",
    ),
    "C10": dict(
        engine="kani",
        technique=_CB + ": Kani/CBMC contract harnesses on new/pack/accessors/Ord/from_str of the real timestamp.rs; std integer parsers havocked by stubs so from_str is proved total for every parse outcome",
        text="Proof: pack/accessor/from_u64 round trips and the lexicographic order are discharged for all field values (all 2^64 pairs for the order); from_str is proved panic-free and field-exact for every outcome of the four integer parsers, and the real splitn runs on inputs with 0..5 fields.",
        design_ref="DESIGN.md section 4, C10",
        note="Not covered: Display formatting (core::fmt) -- print-then-parse on ONE concrete stamp with nothing stubbed did not finish in 20 min (attempt kept in the harness file, not registered) -- and the rkyv archived form (assumed). Integer parsers are assumed panic-free (stubbed).",
    ),
    "C11": _c(
        _CB + ": Kani/CBMC contracts on run_clock, Clock::get_time and Clock::register_ts sliced from datacake-node/src/clock.rs (FIFO stand-in channel, arbitrary wall "
        "reading per event), composed with the send/recv contracts of the real HLCTimestamp",
        "Proof under the stated channel assumption: the single-owner actor turns every schedule into an event sequence; from an ARBITRARY clock state any two events produce "
        "strictly increasing, own-node stamps, a stamp requested after an accepted remote stamp exceeds it, and each caller receives the reply to its own request. Two steps from an arbitrary state are the induction step.",
        "DESIGN.md section 4, C11",
        "ASSUMED: flume FIFO/exactly-once delivery to a single receiver, tokio runs the actor, no wall-clock regression between two events, counters clear of exhaustion (else the real actor panics through expect()).", engine="kani"),
    "C12": _c(
        _CB + ": Kani/CBMC contracts on DataView::using and to_view_bytes sliced from rkyv_tooling, crc32fast as an uninterpreted function, archived_root's safety precondition asserted, frames of every length <= 40 bytes",
        "Proof of the frame contract: accepted <=> long enough for the fixed-size part plus trailer AND trailer == checksum(body); no access outside the buffer; sender's frame is accepted.",
        "DESIGN.md section 4, C12",
        "ASSUMED dependencies: rkyv (de)serialisation correctness (value equality end to end, Status round trip) and CRC-32's single-bit error detection. Archived sizes 1/8/24, alignment 1.", engine="kani"),
    "C13": _c(
        _CB + " (bounded for the registry, proof for the dispatch): Kani inductive-step contracts on ServerState::add_handlers/remove_handlers/get_handler sliced from server.rs, from an arbitrary registry "
        "state satisfying the invariant; Kani contract on try_handle_request sliced from net/server.rs (registry linked by contract) for every request path",
        "Bounded contract checking: one add/remove step from ANY registry state satisfying the invariant within 3 services x 2 keys over 4 URIs, observed through get_handler for every URI; "
        "an inductive step, hence every add/remove history inside that size (add_handlers: service and added key set concrete per harness, two combinations). Proved (class P): the dispatch "
        "glue serves a request exactly when the registry has a handler for the request's own path (any path <= 15 bytes, byte for byte), with that handler, once, and refuses it as unavailable otherwise.",
        "DESIGN.md sections 4 (C13) and 9.11",
        "Locks are exclusive cells; crate::hash injective on registered URIs; hyper connection handling and response framing (handle_connection / handle_message) read, not verified.", engine="kani"),
    "C03": _c(
        _CB + " (bounded for the code, proof for the algebra): Kani/CBMC contract on the verbatim OrSWotSet::merge (callee NodeVersions::merge linked by contract through #[kani::stub] and "
        "checked separately) == the per-key merge kernel for replicas with <= 1 key per side (possibly the same key) and arbitrary cut-offs; Verus: that kernel under the window hypothesis is the "
        "join of a semilattice (max under an injective rank), lifted pointwise and to arbitrary merge sequences",
        "Bounded contract checking of merge against its per-key kernel, plus an unbounded Verus proof that the kernel (no cut-off flag set) is idempotent, commutative, associative and absorbing, "
        "that folding any sequence of replica states depends only on the set folded in, and that replicas that merged each other agree on every lookup.",
        "DESIGN.md section 9.8 (C03)",
        "Decided under the hypothesis 'all timestamps within one forgiveness period' (=> no cut-off flag; lemma). The gap-free-prefix alternative needs ghost history: not decided. Version vectors: "
        "pointwise maximum (os_versions_merge, bounded)."),
    "C07": _c(
        _CB + " (bounded for the loops, proof for the replay step): Kani/CBMC contract on KeyspaceGroup::load_states_from_storage sliced from group.rs (callee load_states by contract stub, its "
        "body checked separately) over a ghost row store; ORSWOT insert/delete contracts on the real orswot.rs; Verus induction over any number of rows",
        "Bounded contract checking: for <= 2 keyspaces x <= 2 rows (ids, stamps, tombstone flags symbolic; stamps may coincide) every stored row is replayed exactly once, in timestamp order, "
        "through source 0 into the state handed to that keyspace's actor, nothing else is, and a failed read hands over nothing. Proved (unbounded): each replayed operation acts as the kernel on "
        "a real set, and replaying any number of rows with distinct ids leaves exactly the rows.",
        "DESIGN.md section 9.8 (C07)",
        "Keyspace names are opaque identifiers (String/Cow<str> stand-ins); Vec -> fixed-capacity vector with a stable insertion sort; 'acknowledged => in storage' is C02; convergence with peers (C01) not decided."),
    "C16": _c(
        _CB + " (bounded for the delta function, proof for the fold): Kani/CBMC contract on watch_membership_changes sliced from datacake-node/src/lib.rs for a transition between two "
        "snapshots (who is at which address concrete per harness, data centres symbolic), plus a Verus induction that applying every delta yields the last snapshot",
        "Bounded contract checking: for 52 transitions over the local node and two other nodes x 3 shared addresses (previous snapshot canonical up to renaming; joins, leaves, address changes, "
        "swaps, an address taken over by another node id) x 2 data centres (symbolic): joined/left are exact (left as members of the previous snapshot, with the address they had), departed unused "
        "addresses are disconnected and nothing else is, the selector gets exactly the current layout, and a consumer applying the events holds exactly the other live nodes. Proved "
        "(unbounded): the fold of all deltas equals the last snapshot.",
        "DESIGN.md sections 9.8 and 9.11 (C16)",
        "KNOWN LIMIT (D6): deltas travel on a latest-value watch channel; a subscriber that attaches late or reads slowly sees a subsequence of deltas -- that part of the property ('no matter how "
        "slowly it reads', 'joined before the subscription') is NOT established by these obligations and is recorded as a known finding. Names and addresses are opaque identifiers."),
    "C15": _c(
        _CB + " (bounded): Kani/CBMC contracts on DCAwareSelector::select_nodes, select_n_nodes and NodeCycler sliced from datacake-node/src/nodes_selector.rs -- layout shape concrete per harness, "
        "consistency level, round-robin cursors (= every history of earlier selections) and the random data-centre choice symbolic -- and on the Op::SetNodes arm of the selector actor loop (block slice)",
        "Bounded contract checking: for every layout with <= 2 data centres x <= 3 nodes and every choice of the local node (42 shapes), every level, every cursor vector and every outcome of the "
        "random choice: a successful selection holds only current members other than the local node, no duplicates, at least the number the level requires (exactly n for One/Two/Three, everybody "
        "else for All, per-data-centre majorities for EachQuorum); NotEnoughNodes only when fewer other nodes exist than required; the cursors left behind are again in the range the contract starts "
        "from (inductive step over selection histories). SetNodes: the layout afterwards is exactly the update (a data centre that left is gone), cache emptied. Two defects found by "
        "these obligations were repaired (fix: commits 9dd442d, a1c1e4d).",
        "DESIGN.md section 9.12 (C15)",
        "NOT decided: layouts with three or more data centres (every shape tried ran out of memory: the random choice makes the vector of (&name, &mut cycler) pairs symbolic); the 2 s selection cache "
        "and the GetNodes arm (read); membership -> SetNodes is C16's set_nodes clause. rand::choose_multiple -> arbitrary sub-selection; SocketAddr opaque; SmallVec/Vec -> fixed-capacity vector.", engine="kani"),
    "C18": _c(
        _CB + ": rely/guarantee reduction -- one sequential Kani contract on get_or_create_keyspace/add_state sliced from group.rs with an arbitrary (havoc) group map and environment steps at "
        "both former await points",
        "Proof (under lock atomicity): every write-locked section preserves an existing binding and the caller gets the bound mailbox; if every writer guarantees that, a name's binding "
        "never changes once set, whatever the interleaving.",
        "DESIGN.md section 4, C18",
        "ASSUMED: parking_lot sections are atomic, no guard across an await, other tasks act only at await points and only add bindings for unbound names (the rely).", engine="kani"),
}

NOT_APPLICABLE = {
    "C01": "whole-cluster convergence over all histories, delivery schedules and repair orders: a multi-process history property with no function boundary to carry a postcondition; its single-node ingredients are decided under C02/C04/C05/C07/C08",
    "C06": "spans issuer, transport and N remote nodes (eventual, cross-process); contracts decide only its local ingredients (selection count under C15, write-before-reply under C02)",
    "C14": "schedule/fault quantifier over hyper/h2/tokio/turmoil connection glue; Kani has no concurrency support and no function in /repo owns the behaviour",
    "C17": "behaviour is SQL text executed by the SQLite C engine and LMDB through FFI; no contract within reach of Kani or Verus can express it",
    "C19": "depends on rkyv's archive layout and an unsafe from_bytes_unchecked over std maps; far beyond CBMC (std collections intractable, see DESIGN.md section 1) and vstd has no model of rkyv",
}
