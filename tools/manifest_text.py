SETUP_CMD = "./setup.sh"
HOOKS = {
    "guard": "datacake_verif",
    "enable": "RUSTFLAGS='--cfg datacake_verif' (set by ./check for every harness crate; the harness crates include or slice /repo sources, /repo's own Cargo build is never given the flag)",
    "baseline_off_cmd": "cd /repo && cargo test --workspace --no-fail-fast --offline",
    "source_commits": ["8eb09df"],
    "add_only": True,
}
ENGINES = [
    {"name": "kani", "path": "cargo kani (0.68.0, CBMC 6.11.0, CaDiCaL)", "serves_properties": ["C09", "C10"],
     "kind_free_text": "contract harnesses (assume pre / call real function text / assert post), loop-free over full symbolic domain"},
    {"name": "verus", "path": "verus 0.2026.09.13 (Z3)", "serves_properties": [],
     "kind_free_text": "lemma layer: unbounded induction over sequences/maps on the kernels the Kani contracts are stated in"},
]
NOTES = "See DESIGN.md. exit 0 = all obligations discharged; exit 1 = VIOLATION (failed obligation, replayed natively where Kani gives a counterexample); exit 2 = undecided (lost anchor, unsupported construct, model limit, timeout) and never a VIOLATION line."

CLAIMED = {
    "C09": dict(
        engine="kani",
        technique="contract-based deductive verification: Kani/CBMC contract harnesses on HLCTimestamp::send/recv compiled straight from /repo, full 64-bit domain, arbitrary injected wall clock; two-step induction from an arbitrary clock state",
        text="Proof: pre/postconditions of send and recv (strictly increasing, own node id, drift bound, error => unchanged, error reasons) are discharged by CBMC for every clock value, every remote stamp and every wall-clock reading (stalled, backwards, ahead); loop-free, so complete. Histories follow by induction: each step's contract is proved from an arbitrary state.",
        design_ref="DESIGN.md section 4, C09",
        note="Assumes wall clock <= 2^32-1 s after the datacake epoch; std Duration arithmetic as compiled by Kani; the cfg(datacake_verif) hook only replaces the SystemTime read.",
    ),
    "C10": dict(
        engine="kani",
        technique="contract-based deductive verification: Kani/CBMC contract harnesses on new/pack/accessors/Ord/from_str of the real timestamp.rs; std integer parsers havocked by stubs so from_str is proved total for every parse outcome",
        text="Proof: pack/accessor/from_u64 round trips and the lexicographic order are discharged for all field values (all 2^64 pairs for the order); from_str is proved panic-free and field-exact for every outcome of the four integer parsers, and the real splitn runs on inputs with 0..5 fields.",
        design_ref="DESIGN.md section 4, C10",
        note="Not covered: Display formatting (core::fmt) at full width and the rkyv archived form (assumed). Integer parsers are assumed panic-free (stubbed).",
    ),
}

NOT_APPLICABLE = {
    "C01": "whole-cluster convergence over all histories, delivery schedules and repair orders: a multi-process history property with no function boundary to carry a postcondition; its single-node ingredients are decided under C02/C04/C05/C07/C08",
    "C06": "spans issuer, transport and N remote nodes (eventual, cross-process); contracts decide only its local ingredients (selection count under C15, write-before-reply under C02)",
    "C14": "schedule/fault quantifier over hyper/h2/tokio/turmoil connection glue; Kani has no concurrency support and no function in /repo owns the behaviour",
    "C17": "behaviour is SQL text executed by the SQLite C engine and LMDB through FFI; no contract within reach of Kani or Verus can express it",
    "C19": "depends on rkyv's archive layout and an unsafe from_bytes_unchecked over std maps; far beyond CBMC (std collections intractable, see DESIGN.md section 1) and vstd has no model of rkyv",
}
