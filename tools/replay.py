"""Replay of a failed Kani obligation on the real code.

1. the failing harness is re-run with Kani's concrete playback, which prints a unit test carrying the
   counterexample bytes in `kani::any()` call order;
2. the harness crate is copied to build/replay/<unit>-crate, the printed test(s) are appended to the
   module that holds the harness, and `cargo kani playback` executes them NATIVELY with
   `--cfg verif_replay`: the function text from /repo runs on the recorded input (stubs are inert in a
   native run; harnesses that stub a dependency rebuild a real input from the recorded values under
   cfg(verif_replay), and vcoll wraps the real std collections);
3. a test that panics natively == the contract breach is reproduced on the real code.
"""
import os
import re
import shutil


def _extract_tests(text):
    return re.findall(r"```\n(.*?)```", text, re.S)


def replay_tests_path(BUILD, unit):
    return os.path.join(BUILD, unit, "replay_tests.rs")


def _native_run(ROOT, BUILD, ENV, u, unit, tests, run_group, tag, timeout):
    """append nothing to the crate: contracts.rs ends with
    `#[cfg(verif_replay)] include!("/verif/build/<unit>/replay_tests.rs");`"""
    crate = os.path.join(ROOT, u["crate"])
    names = []
    # every contract module of the crate include!s its own replay file under cfg(verif_replay):
    # make sure the files of sibling units (same crate) exist
    import sys
    sys.path.insert(0, os.path.join(ROOT, "tools"))
    import registry
    for other, ou in registry.UNITS.items():
        if ou.get("crate") == u.get("crate") and other != unit:
            op = replay_tests_path(BUILD, other)
            os.makedirs(os.path.dirname(op), exist_ok=True)
            if not os.path.exists(op):
                open(op, "w").write("// no replay tests for this unit in this run\n")
    with open(replay_tests_path(BUILD, unit), "w") as f:
        f.write("// written by tools/replay.py: Kani concrete playback tests\n")
        for t in tests:
            m = re.search(r"fn (kani_concrete_playback_\w+)", t)
            if m and m.group(1) not in names:
                names.append(m.group(1))
                # contract modules may shadow `Vec`/`vec!` with the vcoll stand-ins: name the std ones
                t = t.replace("Vec<Vec<u8>>", "std::vec::Vec<std::vec::Vec<u8>>").replace("vec![", "std::vec![")
                f.write(t + "\n")
    env2 = dict(ENV)
    env2["CARGO_TARGET_DIR"] = os.path.join(BUILD, f"target-replay-{unit}")
    env2["RUSTFLAGS"] = ENV.get("RUSTFLAGS", "") + " --cfg verif_replay"
    env2["RUST_BACKTRACE"] = "0"
    for k, v in u.get("env", {}).items():
        env2[k] = v
    plog = os.path.join(BUILD, unit, f"playback-native-{tag}.log")
    pcmd = ["cargo", "kani", "playback", "-Z", "concrete-playback"] + list(u.get("kani_flags", [])) + \
           ["--", "kani_concrete_playback", "--test-threads", "1"]
    run_group(pcmd, crate, env2, timeout, plog)
    return pcmd, open(plog).read()


def _judge(ptext):
    failed = re.findall(r"^test (\S+) \.\.\. FAILED", ptext, re.M)
    passed = re.findall(r"^test (\S+) \.\.\. ok", ptext, re.M)
    msgs = {}
    unfaithful = []
    for m in re.finditer(r"^---- (\S+) stdout ----\n(.*?)(?=^----|\Z|^failures:)", ptext, re.S | re.M):
        msgs[m.group(1)] = " ".join(m.group(2).split())[:500]
        # a panic raised by the playback runtime itself (values left over / exhausted) means the native run
        # took a different path from the verifier's (inert stub): that is not a reproduction
        if "concrete_playback.rs" in m.group(2):
            unfaithful.append(m.group(1))
    failed = [f for f in failed if f not in unfaithful]
    return failed, passed, unfaithful, msgs


def kani_replay_many(ROOT, BUILD, ENV, u, obls, run_group, timeout=1200):
    """-> {obligation name: (confirmed, [lines])}. One Kani invocation regenerates the counterexamples
    of all failing harnesses of the unit (in parallel), one native run executes all of them."""
    unit = obls[0]["unit"]
    crate = os.path.join(ROOT, u["crate"])
    env = dict(ENV)
    env["CARGO_TARGET_DIR"] = os.path.join(BUILD, f"target-{unit}")
    for k, v in u.get("env", {}).items():
        env[k] = v
    # --concrete-playback is incompatible with --jobs: one process per harness, each with its own target dir
    import threading
    texts = {}

    def gen(i, o):
        e = dict(env)
        e["CARGO_TARGET_DIR"] = os.path.join(BUILD, f"target-{unit}-pb{i}")
        lf = os.path.join(BUILD, unit, f"playback-gen-{o['name']}.log")
        c = ["cargo", "kani"] + list(u.get("kani_flags", [])) + [
            "-Z", "concrete-playback", "--concrete-playback=print", "--output-format", "terse", "--exact",
            "--harness", u.get("harness_mod", "contracts") + "::" + o["harness"]]
        run_group(c, crate, e, timeout, lf, mem_gb=44)  # trace generation is memory hungry
        texts[o["name"]] = open(lf).read()

    cmd = ["cargo", "kani"] + list(u.get("kani_flags", [])) + [
        "-Z", "concrete-playback", "--concrete-playback=print", "--output-format", "terse", "--exact", "--harness", "<harness>"]
    ths = [threading.Thread(target=gen, args=(i, o)) for i, o in enumerate(obls)]
    for t in ths:
        t.start()
    for t in ths:
        t.join()
    text = "\n".join(texts.values())
    tests = [t for t in _extract_tests(text) if "Check for `cover`" not in t]
    out = {}
    by = {}
    for t in tests:
        m = re.search(r"Test generated for harness `([^`]+)`", t)
        if m:
            by.setdefault(m.group(1).split("::")[-1], []).append(t)
    ptext, pcmd = "", []
    if tests:
        pcmd, ptext = _native_run(ROOT, BUILD, ENV, u, unit, tests, run_group, "gen", timeout)
    failed, passed, unfaithful, msgs = _judge(ptext)
    for o in obls:
        lines = ["# counterexample generation: " + " ".join(cmd)]
        mine = by.get(o["harness"], [])
        if not mine:
            lines.append("# Kani produced no concrete playback test for this harness (timeout or no counterexample values)")
            out[o["name"]] = (False, lines)
            continue
        tag = "kani_concrete_playback_" + o["harness"] + "_"
        f_me = [f for f in failed if tag in f]
        p_me = [f for f in passed if tag in f]
        u_me = [f for f in unfaithful if tag in f]
        lines.append("# native replay: " + " ".join(pcmd) + "   (RUSTFLAGS adds --cfg verif_replay: vcoll wraps the real std collections)")
        lines.append(f"# native replay result: {len(f_me)} test(s) breach the contract on the real code, {len(p_me)} do not"
                     + (f", {len(u_me)} diverged from the verifier's path (stubbed dependency inert natively; not counted)" if u_me else ""))
        for n, msg in msgs.items():
            if tag in n:
                lines.append(f"#   {n}: {msg}")
        if not (f_me or p_me or u_me):
            lines.append("# native replay did not run; tail of its log:")
            lines += ["#   " + l for l in ptext.splitlines()[-25:]]
        lines.append("")
        lines.append("// ===== replayable unit tests (Kani concrete playback) for harness " + o["harness"])
        lines.append(f"// REPLAY-META unit={unit}")
        lines += mine
        out[o["name"]] = (len(f_me) > 0, lines)
    return out


def rerun(ROOT, BUILD, ENV, path, run_group):
    """./check Cxx --replay <file>: re-execute the tests stored in a replay file natively."""
    import sys
    sys.path.insert(0, os.path.join(ROOT, "tools"))
    import registry
    text = open(path).read()
    m = re.search(r"REPLAY-META unit=(\S+)", text)
    if not m:
        print("replay file carries no executable test (verifier gave no counterexample); verifier output is inside the file")
        print(text[:6000])
        return 1
    unit = m.group(1)
    u = registry.UNITS[unit]
    crate = os.path.join(ROOT, u["crate"])
    if u.get("slice"):
        import slicer
        slicer.run_unit(unit, u, registry.REPO, os.path.join(BUILD, u.get("gen_unit", unit), "gen"))
    lock = os.path.join(registry.REPO, "Cargo.lock")
    shutil.copyfile(lock if os.path.exists(lock) else "/repo/Cargo.lock", os.path.join(crate, "Cargo.lock"))
    tests = re.findall(r"(/// Test generated for harness.*?\n}\n)", text, re.S)
    os.makedirs(os.path.join(BUILD, unit), exist_ok=True)
    pcmd, ptext = _native_run(ROOT, BUILD, ENV, u, unit, tests, run_group, "rerun", 2400)
    print(ptext[-6000:])
    failed, passed, unfaithful, msgs = _judge(ptext)
    print(f"replay: {len(failed)} test(s) reproduce the contract breach on the real code, {len(passed)} do not")
    return 1 if failed else 0
