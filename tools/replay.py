"""Replay of a failed Kani obligation on the real code.

1. the failing harness is re-run with Kani's concrete playback, which prints a unit test carrying the
   counterexample bytes in `kani::any()` call order;
2. the harness crate is copied to build/replay/<unit>-crate, the printed test(s) are appended to the
   module that holds the harness, and `cargo kani playback` executes them NATIVELY with
   `--cfg verif_replay`: the function text from /repo runs on the recorded input (stubs are inert in a
   native run; harnesses that stub a dependency rebuild a real input from the recorded values under
   cfg(verif_replay), and vcoll wraps the real std collections);
3. a test that panics natively == the contract breach is reproduced on the real code.
"""
import os
import re
import shutil


def _extract_tests(text):
    return re.findall(r"```\n(.*?)```", text, re.S)


def kani_replay(ROOT, BUILD, ENV, u, obl, run_group, timeout=1800):
    lines = []
    unit = obl["unit"]
    crate = os.path.join(ROOT, u["crate"])
    target = os.path.join(BUILD, f"target-{unit}")
    env = dict(ENV)
    env["CARGO_TARGET_DIR"] = target
    hname = u.get("harness_mod", "contracts") + "::" + obl["harness"]
    logfile = os.path.join(BUILD, unit, f"playback-{obl['name']}.log")
    cmd = ["cargo", "kani"] + list(u.get("kani_flags", [])) + [
        "-Z", "concrete-playback", "--concrete-playback=print", "--output-format", "terse",
        "--exact", "--harness", hname]
    rc, to = run_group(cmd, crate, env, timeout, logfile)
    text = open(logfile).read()
    tests = [t for t in _extract_tests(text) if "Check for `cover`" not in t]
    lines.append("# counterexample generation: " + " ".join(cmd))
    if to or not tests:
        lines.append("# Kani produced no concrete playback test (timeout or no counterexample values)")
        return False, lines
    # native run
    rcrate = os.path.join(BUILD, "replay", f"{unit}-crate")
    shutil.rmtree(rcrate, ignore_errors=True)
    shutil.copytree(crate, rcrate, ignore=shutil.ignore_patterns("target"))
    modfile = os.path.join(rcrate, "src", u.get("harness_mod", "contracts").replace("::", "/") + ".rs")
    names = []
    with open(modfile, "a") as f:
        f.write("\n// ---- appended by tools/replay.py: Kani concrete playback tests\n")
        for t in tests:
            m = re.search(r"fn (kani_concrete_playback_\w+)", t)
            if m and m.group(1) not in names:
                names.append(m.group(1))
                f.write(t + "\n")
    env2 = dict(ENV)
    env2["CARGO_TARGET_DIR"] = os.path.join(BUILD, f"target-replay-{unit}")
    env2["RUSTFLAGS"] = ENV.get("RUSTFLAGS", "") + " --cfg verif_replay"
    env2["RUST_BACKTRACE"] = "0"
    plog = os.path.join(BUILD, unit, f"playback-native-{obl['name']}.log")
    pcmd = ["cargo", "kani", "playback", "-Z", "concrete-playback"] + list(u.get("kani_flags", [])) + \
           ["--", "kani_concrete_playback", "--test-threads", "1"]
    rc2, to2 = run_group(pcmd, rcrate, env2, timeout, plog)
    ptext = open(plog).read()
    failed = re.findall(r"^test (\S+) \.\.\. FAILED", ptext, re.M)
    passed = re.findall(r"^test (\S+) \.\.\. ok", ptext, re.M)
    # a panic raised by the playback runtime itself (values left over / exhausted) means the native
    # run took a different path from the verifier's (inert stub): that is not a reproduction
    unfaithful = []
    for m in re.finditer(r"^---- (\S+) stdout ----\n(.*?)(?=^----|\Z|^failures:)", ptext, re.S | re.M):
        if "concrete_playback.rs" in m.group(2):
            unfaithful.append(m.group(1))
    failed = [f for f in failed if f not in unfaithful]
    confirmed = len(failed) > 0
    if unfaithful:
        lines.append(f"# {len(unfaithful)} playback test(s) diverged from the verifier's path (stubbed dependency inert natively): not counted")
    lines.append("# native replay: " + " ".join(pcmd) + "   (RUSTFLAGS adds --cfg verif_replay; crate copy: " + rcrate + ")")
    lines.append(f"# native replay result: {len(failed)} test(s) panic on the real code, {len(passed)} do not")
    for m in re.finditer(r"^---- (\S+) stdout ----\n(.*?)(?=^----|\Z|^failures:)", ptext, re.S | re.M):
        lines.append(f"#   {m.group(1)}: " + " ".join(m.group(2).split())[:400])
    if not failed and not passed:
        lines.append("# native replay did not run; tail of its log:")
        lines += ["#   " + l for l in ptext.splitlines()[-25:]]
    lines.append("")
    lines.append("// ===== replayable unit tests (Kani concrete playback), harness source: " + os.path.relpath(modfile, BUILD))
    lines.append(f"// REPLAY-META unit={unit} harness_mod={u.get('harness_mod', 'contracts')} flags={' '.join(u.get('kani_flags', []))}")
    for t in tests:
        lines.append(t)
    return confirmed, lines


def rerun(ROOT, BUILD, ENV, path, run_group):
    """./check Cxx --replay <file>: re-execute the tests stored in a replay file natively."""
    import sys
    sys.path.insert(0, os.path.join(ROOT, "tools"))
    import registry
    text = open(path).read()
    m = re.search(r"REPLAY-META unit=(\S+) harness_mod=(\S+) flags=(.*)", text)
    if not m:
        print("replay file carries no executable test (verifier gave no counterexample); verifier output is inside the file")
        print(text[:4000])
        return 1
    unit = m.group(1)
    u = registry.UNITS[unit]
    crate = os.path.join(ROOT, u["crate"])
    if u.get("slice"):
        import slicer
        slicer.run_unit(unit, u, registry.REPO, os.path.join(BUILD, unit, "gen"))
    shutil.copyfile(os.path.join(registry.REPO, "Cargo.lock"), os.path.join(crate, "Cargo.lock"))
    rcrate = os.path.join(BUILD, "replay", f"{unit}-crate")
    shutil.rmtree(rcrate, ignore_errors=True)
    shutil.copytree(crate, rcrate, ignore=shutil.ignore_patterns("target"))
    modfile = os.path.join(rcrate, "src", m.group(2).replace("::", "/") + ".rs")
    tests = re.findall(r"(/// Test generated for harness.*?\n}\n)", text, re.S)
    with open(modfile, "a") as f:
        for t in tests:
            f.write(t + "\n")
    env2 = dict(ENV)
    env2["CARGO_TARGET_DIR"] = os.path.join(BUILD, f"target-replay-{unit}")
    env2["RUSTFLAGS"] = ENV.get("RUSTFLAGS", "") + " --cfg verif_replay"
    plog = os.path.join(BUILD, unit, "playback-rerun.log")
    os.makedirs(os.path.dirname(plog), exist_ok=True)
    pcmd = ["cargo", "kani", "playback", "-Z", "concrete-playback"] + list(u.get("kani_flags", [])) + \
           ["--", "kani_concrete_playback", "--test-threads", "1"]
    run_group(pcmd, rcrate, env2, 1800, plog)
    ptext = open(plog).read()
    print(ptext[-6000:])
    failed = re.findall(r"^test (\S+) \.\.\. FAILED", ptext, re.M)
    print(f"replay: {len(failed)} test(s) reproduce the contract breach on the real code")
    return 1 if failed else 0
