"""Builds a single-file Verus input: the shared kernel text (contracts/kernels.rs, the file the
Kani harnesses compile) pasted inside verus!{} with its `// verus-ensures:` comments turned into
`ensures` clauses and `// verus-proof:` comments uncommented, followed by the spec kernels and the
requested lemma file. Nothing else is changed in the kernel text."""
import os
import re


def transform_kernels(text):
    out = []
    lines = text.split("\n")
    ens = None
    for line in lines:
        st = line.strip()
        if st.startswith("#[derive("):
            continue
        m = re.match(r"//\s*verus-ensures:\s*(.*)$", st)
        if m:
            ens = m.group(1)
            continue
        m = re.match(r"(\s*)//\s*verus-proof:\s*(.*)$", line)
        if m:
            out.append(m.group(1) + "proof { " + m.group(2) + " }")
            continue
        if ens is not None and re.match(r"\s*pub fn ", line):
            m = re.match(r"(\s*pub fn \w+\(.*\)) -> (.+?) \{\s*$", line)
            if not m:
                raise ValueError("kernel signature not on one line: " + line)
            out.append(f"{m.group(1)} -> (r: {m.group(2)})\n    ensures {ens}\n{{")
            ens = None
            continue
        out.append(line)
    return "\n".join(out)


def build(root, lemma_rel, outdir):
    k = open(os.path.join(root, "contracts", "kernels.rs")).read()
    spec = open(os.path.join(root, "lemmas", "kernel_spec.rs")).read()
    lem = open(os.path.join(root, lemma_rel)).read()
    text = "use vstd::prelude::*;\nverus! {\n\n// ===== contracts/kernels.rs (exec kernels; ensures generated from verus-ensures comments)\n" + \
        transform_kernels(k) + "\n\n// ===== lemmas/kernel_spec.rs\n" + spec + "\n\n// ===== " + lemma_rel + "\n" + lem + \
        "\n} // verus!\nfn main() {}\n"
    os.makedirs(outdir, exist_ok=True)
    p = os.path.join(outdir, os.path.basename(lemma_rel))
    with open(p, "w") as f:
        f.write(text)
    return p
