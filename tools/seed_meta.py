#!/usr/bin/env python3
"""usage: seed_meta.py <id> key=value ...   -- create/update seeded/<id>/meta.json (values parsed as JSON when possible)"""
import json, os, sys
sid = sys.argv[1]
p = os.path.join(os.path.dirname(os.path.abspath(__file__)), "..", "seeded", sid, "meta.json")
m = json.load(open(p)) if os.path.exists(p) else {"id": sid}
for kv in sys.argv[2:]:
    k, v = kv.split("=", 1)
    try:
        m[k] = json.loads(v)
    except ValueError:
        m[k] = v
json.dump(m, open(p, "w"), indent=1)
open(p, "a").write("\n")
