//! Differential validation of vcoll's concrete (bounded) maps, sets and VVec against the real
//! std collections: random operation sequences (seeded by VERIF_SEED), every observable result
//! compared. Run natively: `cargo test` (verification mode build of vcoll, no Kani).
use std::collections as sc;

struct Rng(u64);
impl Rng {
    fn next(&mut self) -> u64 {
        self.0 = self.0.wrapping_mul(6364136223846793005).wrapping_add(1442695040888963407);
        (self.0 >> 33) ^ self.0
    }
    fn below(&mut self, n: u64) -> u64 {
        self.next() % n
    }
}
fn seed() -> u64 {
    std::env::var("VERIF_SEED").ok().and_then(|s| s.parse().ok()).unwrap_or(1)
}

#[test]
fn btreemap_matches_std() {
    let mut rng = Rng(seed() ^ 0xB7EE);
    for _round in 0..300 {
        let mut a: vcoll::BTreeMap<u64, u64> = vcoll::BTreeMap::new();
        let mut b: sc::BTreeMap<u64, u64> = sc::BTreeMap::new();
        let universe = vcoll::CAP as u64; // never exceeds the capacity
        for _ in 0..40 {
            let k = rng.below(universe) * 7 + 3;
            let v = rng.next();
            match rng.below(8) {
                0 => assert_eq!(a.insert(k, v), b.insert(k, v)),
                1 => assert_eq!(a.remove(&k), b.remove(&k)),
                2 => assert_eq!(a.get(&k), b.get(&k)),
                3 => assert_eq!(a.contains_key(&k), b.contains_key(&k)),
                4 => {
                    let x = *a.entry(k).and_modify(|e| *e = e.wrapping_add(1)).or_insert_with(|| v);
                    let y = *b.entry(k).and_modify(|e| *e = e.wrapping_add(1)).or_insert_with(|| v);
                    assert_eq!(x, y);
                },
                5 => {
                    use sc::btree_map::Entry as SE;
                    use vcoll::btree_map::Entry as VE;
                    let x = match a.entry(k) {
                        VE::Occupied(mut o) => {
                            let old = *o.get();
                            o.insert(v);
                            Some(old)
                        },
                        VE::Vacant(e) => {
                            e.insert(v);
                            None
                        },
                    };
                    let y = match b.entry(k) {
                        SE::Occupied(mut o) => {
                            let old = *o.get();
                            o.insert(v);
                            Some(old)
                        },
                        SE::Vacant(e) => {
                            e.insert(v);
                            None
                        },
                    };
                    assert_eq!(x, y);
                },
                6 => {
                    a.retain(|kk, _| kk % 2 == 0);
                    b.retain(|kk, _| kk % 2 == 0);
                },
                _ => {
                    assert_eq!(a.len(), b.len());
                    assert_eq!(a.is_empty(), b.is_empty());
                },
            }
            // iteration order (sorted) and contents
            let xs: Vec<(u64, u64)> = a.iter().map(|(k, v)| (*k, *v)).collect();
            let ys: Vec<(u64, u64)> = b.iter().map(|(k, v)| (*k, *v)).collect();
            assert_eq!(xs, ys);
            assert_eq!(a.keys().copied().collect::<Vec<_>>(), b.keys().copied().collect::<Vec<_>>());
        }
        let xs: Vec<(u64, u64)> = a.clone().into_iter().collect();
        let ys: Vec<(u64, u64)> = b.clone().into_iter().collect();
        assert_eq!(xs, ys);
    }
}

#[test]
fn hashmap_and_sets_match_std_as_sets() {
    let mut rng = Rng(seed() ^ 0x4A54);
    for _round in 0..300 {
        let mut a: vcoll::HashMap<u64, u64> = vcoll::HashMap::new();
        let mut b: sc::HashMap<u64, u64> = sc::HashMap::new();
        let mut sa: vcoll::HashSet<u64> = vcoll::HashSet::new();
        let mut sb: sc::HashSet<u64> = sc::HashSet::new();
        let universe = vcoll::CAP as u64;
        for _ in 0..40 {
            let k = rng.below(universe) + 100;
            let v = rng.next();
            match rng.below(6) {
                0 => assert_eq!(a.insert(k, v), b.insert(k, v)),
                1 => assert_eq!(a.remove(&k), b.remove(&k)),
                2 => assert_eq!(a.get(&k), b.get(&k)),
                3 => assert_eq!(sa.insert(k), sb.insert(k)),
                4 => assert_eq!(sa.remove(&k), sb.remove(&k)),
                _ => assert_eq!(sa.contains(&k), sb.contains(&k)),
            }
            let mut xs: Vec<(u64, u64)> = a.iter().map(|(k, v)| (*k, *v)).collect();
            let mut ys: Vec<(u64, u64)> = b.iter().map(|(k, v)| (*k, *v)).collect();
            xs.sort();
            ys.sort();
            assert_eq!(xs, ys);
            let mut x: Vec<u64> = sa.iter().copied().collect();
            let mut y: Vec<u64> = sb.iter().copied().collect();
            x.sort();
            y.sort();
            assert_eq!(x, y);
            assert_eq!(sa.len(), sb.len());
        }
    }
}

#[test]
fn string_keys_and_bitset() {
    let mut a: vcoll::BTreeMap<String, vcoll::bitset::BitSet<u64>> = vcoll::BTreeMap::new();
    let mut b: sc::BTreeMap<String, sc::BTreeSet<u64>> = sc::BTreeMap::new();
    let mut rng = Rng(seed() ^ 0x5712);
    let names = ["a", "b", "c", "svc"];
    for _ in 0..200 {
        let n = names[rng.below(4) as usize];
        let k = rng.below(60);
        match rng.below(4) {
            0 => {
                assert_eq!(a.entry(n.to_string()).or_default().insert(k), b.entry(n.to_string()).or_default().insert(k));
            },
            1 => {
                let x = a.remove(n).map(|s| s.len());
                let y = b.remove(n).map(|s| s.len());
                assert_eq!(x, y);
            },
            2 => assert_eq!(a.get(n).map(|s| s.contains(&k)), b.get(n).map(|s| s.contains(&k))),
            _ => assert_eq!(a.get(n).map(|s| s.len()), b.get(n).map(|s| s.len())),
        }
    }
}

#[test]
fn vvec_matches_vec_and_sort_is_stable() {
    let mut rng = Rng(seed() ^ 0x7EC);
    for _ in 0..300 {
        let mut a: vcoll::vvec::VVec<(u64, u64)> = vcoll::vvec::VVec::new();
        let mut b: Vec<(u64, u64)> = Vec::new();
        let n = rng.below(vcoll::vvec::VCAP as u64 + 1);
        for i in 0..n {
            let item = (rng.below(3), i);
            a.push(item);
            b.push(item);
        }
        a.sort_by_key(|x| x.0);
        b.sort_by_key(|x| x.0);
        assert_eq!(a.iter().copied().collect::<Vec<_>>(), b);
        assert_eq!(a.len(), b.len());
        let keep = rng.below(3);
        a.retain(|x| x.0 != keep);
        b.retain(|x| x.0 != keep);
        assert_eq!(a.iter().copied().collect::<Vec<_>>(), b);
        assert_eq!(a.len(), b.len());
        assert_eq!(a.into_iter().collect::<Vec<_>>(), b);
    }
}
