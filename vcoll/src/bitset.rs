//! Set of small keys as a 64-bit mask: a cheap stand-in for `BTreeSet<K>`/`HashSet<K>` values
//! nested inside maps (a boxed `Set` per map value multiplies CBMC's dynamic objects: measured
//! 1.4 M variables for two insertions). Keys must have `vkey() < 64`; anything else is a model
//! limit ("vcoll:" assertion => undecided). Iteration is in ascending key order, yielding
//! the key identities (`u64`).
use crate::vkey::VKey;

pub struct BitSet<K> {
    bits: u64,
    _k: core::marker::PhantomData<K>,
}
impl<K> Default for BitSet<K> {
    fn default() -> Self {
        BitSet { bits: 0, _k: core::marker::PhantomData }
    }
}
impl<K> Clone for BitSet<K> {
    fn clone(&self) -> Self {
        BitSet { bits: self.bits, _k: core::marker::PhantomData }
    }
}
impl<K> core::fmt::Debug for BitSet<K> {
    fn fmt(&self, _f: &mut core::fmt::Formatter<'_>) -> core::fmt::Result {
        Ok(())
    }
}
impl<K> crate::Havoc for BitSet<K> {
    fn havoc() -> Self {
        BitSet { bits: <u64 as crate::Havoc>::havoc(), _k: core::marker::PhantomData }
    }
}
fn bit<Q: VKey + ?Sized>(k: &Q) -> u64 {
    let v = k.vkey();
    assert!(v < 64, "vcoll: BitSet keys must be below 64");
    1u64 << v
}
impl<K: VKey> BitSet<K> {
    pub fn new() -> Self {
        Self::default()
    }
    pub fn insert(&mut self, k: K) -> bool {
        let b = bit(&k);
        let fresh = self.bits & b == 0;
        self.bits |= b;
        fresh
    }
    pub fn remove<Q: VKey + ?Sized>(&mut self, k: &Q) -> bool {
        let b = bit(k);
        let had = self.bits & b != 0;
        self.bits &= !b;
        had
    }
    pub fn contains<Q: VKey + ?Sized>(&self, k: &Q) -> bool {
        self.bits & bit(k) != 0
    }
    pub fn len(&self) -> usize {
        self.bits.count_ones() as usize
    }
    pub fn is_empty(&self) -> bool {
        self.bits == 0
    }
    pub fn clear(&mut self) {
        self.bits = 0;
    }
    pub fn raw(&self) -> u64 {
        self.bits
    }
}

/// element references for `BitSet<u64>` (the keys themselves are not stored: references point
/// into a constant table)
static SMALL: [u64; 64] = {
    let mut t = [0u64; 64];
    let mut i = 0;
    while i < 64 {
        t[i] = i as u64;
        i += 1;
    }
    t
};
impl BitSet<u64> {
    pub fn first(&self) -> Option<&u64> {
        if self.bits == 0 {
            None
        } else {
            Some(&SMALL[self.bits.trailing_zeros() as usize])
        }
    }
    pub fn last(&self) -> Option<&u64> {
        if self.bits == 0 {
            None
        } else {
            Some(&SMALL[63 - self.bits.leading_zeros() as usize])
        }
    }
    /// ascending order, like BTreeSet
    pub fn iter(&self) -> BitIter {
        BitIter { bits: self.bits }
    }
    pub fn retain<F: FnMut(&u64) -> bool>(&mut self, mut f: F) {
        let mut it = self.iter();
        while let Some(k) = it.next() {
            if !f(k) {
                self.bits &= !(1u64 << *k);
            }
        }
    }
}
pub struct BitIter {
    bits: u64,
}
impl Iterator for BitIter {
    type Item = &'static u64;
    fn next(&mut self) -> Option<&'static u64> {
        if self.bits == 0 {
            return None;
        }
        let i = self.bits.trailing_zeros() as usize;
        self.bits &= !(1u64 << i);
        Some(&SMALL[i])
    }
}
impl<'a> IntoIterator for &'a BitSet<u64> {
    type Item = &'static u64;
    type IntoIter = BitIter;
    fn into_iter(self) -> BitIter {
        self.iter()
    }
}
impl IntoIterator for BitSet<u64> {
    type Item = u64;
    type IntoIter = core::iter::Copied<BitIter>;
    fn into_iter(self) -> Self::IntoIter {
        self.iter().copied()
    }
}

impl<K: VKey> core::iter::FromIterator<K> for BitSet<K> {
    fn from_iter<I: IntoIterator<Item = K>>(iter: I) -> Self {
        let mut s = Self::default();
        for k in iter {
            s.insert(k);
        }
        s
    }
}
impl<K: VKey> Extend<K> for BitSet<K> {
    fn extend<I: IntoIterator<Item = K>>(&mut self, iter: I) {
        for k in iter {
            self.insert(k);
        }
    }
}
impl<'a, K: VKey + Copy + 'a> Extend<&'a K> for BitSet<K> {
    fn extend<I: IntoIterator<Item = &'a K>>(&mut self, iter: I) {
        for k in iter {
            self.insert(*k);
        }
    }
}
