//! Set of small keys as a 64-bit mask: a cheap stand-in for `BTreeSet<K>`/`HashSet<K>` values
//! nested inside maps (a boxed `Set` per map value multiplies CBMC's dynamic objects: measured
//! 1.4 M variables for two insertions). Keys must have `vkey() < 64`; anything else is a model
//! limit ("vcoll:" assertion => undecided). Iteration is in ascending key order, yielding
//! the key identities (`u64`).
use crate::vkey::VKey;

pub struct BitSet<K> {
    bits: u64,
    _k: core::marker::PhantomData<K>,
}
impl<K> Default for BitSet<K> {
    fn default() -> Self {
        BitSet { bits: 0, _k: core::marker::PhantomData }
    }
}
impl<K> Clone for BitSet<K> {
    fn clone(&self) -> Self {
        BitSet { bits: self.bits, _k: core::marker::PhantomData }
    }
}
impl<K> core::fmt::Debug for BitSet<K> {
    fn fmt(&self, _f: &mut core::fmt::Formatter<'_>) -> core::fmt::Result {
        Ok(())
    }
}
impl<K> crate::Havoc for BitSet<K> {
    fn havoc() -> Self {
        BitSet { bits: <u64 as crate::Havoc>::havoc(), _k: core::marker::PhantomData }
    }
}
fn bit<Q: VKey + ?Sized>(k: &Q) -> u64 {
    let v = k.vkey();
    assert!(v < 64, "vcoll: BitSet keys must be below 64");
    1u64 << v
}
impl<K: VKey> BitSet<K> {
    pub fn new() -> Self {
        Self::default()
    }
    pub fn insert(&mut self, k: K) -> bool {
        let b = bit(&k);
        let fresh = self.bits & b == 0;
        self.bits |= b;
        fresh
    }
    pub fn remove<Q: VKey + ?Sized>(&mut self, k: &Q) -> bool {
        let b = bit(k);
        let had = self.bits & b != 0;
        self.bits &= !b;
        had
    }
    pub fn contains<Q: VKey + ?Sized>(&self, k: &Q) -> bool {
        self.bits & bit(k) != 0
    }
    pub fn len(&self) -> usize {
        self.bits.count_ones() as usize
    }
    pub fn is_empty(&self) -> bool {
        self.bits == 0
    }
    pub fn clear(&mut self) {
        self.bits = 0;
    }
    pub fn raw(&self) -> u64 {
        self.bits
    }
}
