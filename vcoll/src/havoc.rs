//! Nondeterministic value source. Under Kani every call is a fresh symbolic value; in a
//! native replay (`cargo kani playback`) `kani::any()` pops the recorded counterexample bytes.
pub trait Havoc: Sized {
    fn havoc() -> Self;
}

macro_rules! havoc_prim {
    ($($t:ty),*) => {$(
        impl Havoc for $t {
            #[cfg(kani)]
            fn havoc() -> Self { kani::any() }
            #[cfg(not(kani))]
            fn havoc() -> Self { panic!("vcoll: havoc values exist only under Kani / Kani playback") }
        }
    )*};
}
havoc_prim!(bool, u8, u16, u32, u64, usize, i64);

impl Havoc for () {
    fn havoc() -> Self {}
}

/// `bool` choice, usable from generic code.
pub fn any_bool() -> bool {
    <bool as Havoc>::havoc()
}

impl<A: Havoc, B: Havoc> Havoc for (A, B) {
    fn havoc() -> Self {
        (A::havoc(), B::havoc())
    }
}
impl<A: Havoc, B: Havoc, C: Havoc> Havoc for (A, B, C) {
    fn havoc() -> Self {
        (A::havoc(), B::havoc(), C::havoc())
    }
}
