//! Fixed-capacity vector shadowing `Vec`/`vec!` in the generated copies used by the
//! *bounded* obligations of iterating functions (real `Vec` growth under a symbolic
//! length defeats CBMC, DESIGN.md section 1). Stable insertion sort, like `slice::sort_by_key`.
/// capacity: VCOLL_VCAP at compile time, default 2 * CAP
pub const VCAP: usize = crate::parse_vcap(option_env!("VCOLL_VCAP"));

pub struct VVec<T> {
    n: usize,
    items: [Option<T>; VCAP],
}

impl<T> Default for VVec<T> {
    fn default() -> Self {
        Self::new()
    }
}
impl<T: Clone> Clone for VVec<T> {
    fn clone(&self) -> Self {
        // element-wise with a loop counter: `<[T; N] as Clone>::clone` (array::try_from_fn over MaybeUninit) defeats CBMC's constant propagation
        let mut items: [Option<T>; VCAP] = [const { None }; VCAP];
        let mut i = 0;
        while i < VCAP {
            if let Some(v) = &self.items[i] {
                items[i] = Some(v.clone());
            }
            i += 1;
        }
        VVec { n: self.n, items }
    }
}
impl<T> core::fmt::Debug for VVec<T> {
    fn fmt(&self, _f: &mut core::fmt::Formatter<'_>) -> core::fmt::Result {
        Ok(())
    }
}
impl<T: PartialEq> PartialEq for VVec<T> {
    fn eq(&self, o: &Self) -> bool {
        if self.n != o.n {
            return false;
        }
        let mut i = 0;
        while i < self.n {
            if self.items[i] != o.items[i] {
                return false;
            }
            i += 1;
        }
        true
    }
}

impl<T> VVec<T> {
    pub fn new() -> Self {
        VVec { n: 0, items: [const { None }; VCAP] }
    }
    pub fn with_capacity(_c: usize) -> Self {
        Self::new()
    }
    pub fn push(&mut self, v: T) {
        assert!(self.n < VCAP, "vcoll: VVec capacity exceeded");
        self.items[self.n] = Some(v);
        self.n += 1;
    }
    pub fn len(&self) -> usize {
        self.n
    }
    pub fn is_empty(&self) -> bool {
        self.n == 0
    }
    pub fn get(&self, i: usize) -> Option<&T> {
        // loop counter instead of a (possibly symbolic) array index
        let mut p = 0;
        while p < VCAP {
            if p == i && p < self.n {
                return self.items[p].as_ref();
            }
            p += 1;
        }
        None
    }
    pub fn iter(&self) -> Iter<'_, T> {
        Iter { v: self, pos: 0 }
    }
    pub fn iter_mut(&mut self) -> IterMut<'_, T> {
        IterMut { v: self as *mut VVec<T>, pos: 0, _m: core::marker::PhantomData }
    }
    pub fn truncate(&mut self, len: usize) {
        let mut i = 0;
        while i < VCAP {
            if i >= len && i < self.n {
                self.items[i] = None;
            }
            i += 1;
        }
        if len < self.n {
            self.n = len;
        }
    }
    pub fn clear(&mut self) {
        self.truncate(0)
    }
    /// `Vec::remove`: removes and returns the element at `index`, shifting the rest left
    pub fn remove(&mut self, index: usize) -> T {
        assert!(index < self.n, "removal index out of bounds");
        let mut out: Option<T> = None;
        let mut i = 0;
        while i < VCAP {
            if i == index {
                out = self.items[i].take();
            } else if i > index && i < self.n {
                let v = self.items[i].take();
                self.items[i - 1] = v;
            }
            i += 1;
        }
        self.n -= 1;
        out.unwrap()
    }
    /// moves the element at `i` out, leaving a hole (stand-in streams hand their items out once, in order)
    pub fn take_at(&mut self, i: usize) -> Option<T> {
        let mut p = 0;
        while p < VCAP {
            if p == i && p < self.n {
                return self.items[p].take();
            }
            p += 1;
        }
        None
    }
    /// `Vec::retain`: keeps the elements for which `f` is true, in order
    pub fn retain<F: FnMut(&T) -> bool>(&mut self, mut f: F) {
        let mut w = 0;
        let mut i = 0;
        while i < VCAP {
            if i < self.n {
                let v = self.items[i].take();
                if let Some(x) = v {
                    if f(&x) {
                        self.items[w] = Some(x);
                        w += 1;
                    }
                }
            }
            i += 1;
        }
        self.n = w;
    }
    /// `SmallVec::from_vec` / `Vec::from`: identity
    pub fn from_vec(v: VVec<T>) -> Self {
        v
    }
    /// `slice::chunks`: consecutive views of at most `size` elements
    pub fn chunks(&self, size: usize) -> Chunks<'_, T> {
        assert!(size != 0, "chunk size must be non-zero");
        Chunks { v: self, pos: 0, size }
    }
    pub fn first(&self) -> Option<&T> {
        self.get(0)
    }
    pub fn last(&self) -> Option<&T> {
        if self.n == 0 { None } else { self.get(self.n - 1) }
    }
    pub fn contains(&self, x: &T) -> bool
    where
        T: PartialEq,
    {
        let mut i = 0;
        while i < self.n {
            if self.items[i].as_ref() == Some(x) {
                return true;
            }
            i += 1;
        }
        false
    }
    /// Stable insertion sort (same observable result as the stable `slice::sort_by_key`).
    pub fn sort_by_key<K: PartialOrd, F: FnMut(&T) -> K>(&mut self, mut f: F) {
        let mut i = 1;
        while i < self.n {
            let mut j = i;
            while j > 0 {
                let a = f(self.items[j - 1].as_ref().unwrap());
                let b = f(self.items[j].as_ref().unwrap());
                if a > b {
                    self.items.swap(j - 1, j);
                    j -= 1;
                } else {
                    break;
                }
            }
            i += 1;
        }
    }
}

impl<T> core::ops::Index<usize> for VVec<T> {
    type Output = T;
    fn index(&self, i: usize) -> &T {
        assert!(i < self.n, "index out of bounds");
        self.items[i].as_ref().unwrap()
    }
}

pub struct Iter<'a, T> {
    v: &'a VVec<T>,
    pos: usize,
}
impl<'a, T> Iterator for Iter<'a, T> {
    type Item = &'a T;
    fn next(&mut self) -> Option<&'a T> {
        if self.pos < self.v.n {
            let p = self.pos;
            self.pos += 1;
            self.v.items[p].as_ref()
        } else {
            None
        }
    }
}
pub struct Chunks<'a, T> {
    v: &'a VVec<T>,
    pos: usize,
    size: usize,
}
/// one chunk: elements [from, to) of the vector
pub struct Chunk<'a, T> {
    v: &'a VVec<T>,
    from: usize,
    to: usize,
}
impl<'a, T> Iterator for Chunks<'a, T> {
    type Item = Chunk<'a, T>;
    fn next(&mut self) -> Option<Chunk<'a, T>> {
        if self.pos >= self.v.n {
            return None;
        }
        let from = self.pos;
        let to = if self.v.n - from < self.size { self.v.n } else { from + self.size };
        self.pos = to;
        Some(Chunk { v: self.v, from, to })
    }
}
impl<'a, T> Chunk<'a, T> {
    pub fn iter(&self) -> ChunkIter<'a, T> {
        ChunkIter { v: self.v, pos: self.from, to: self.to }
    }
    pub fn len(&self) -> usize {
        self.to - self.from
    }
}
pub struct ChunkIter<'a, T> {
    v: &'a VVec<T>,
    pos: usize,
    to: usize,
}
impl<'a, T> Iterator for ChunkIter<'a, T> {
    type Item = &'a T;
    fn next(&mut self) -> Option<&'a T> {
        if self.pos < self.to {
            let p = self.pos;
            self.pos += 1;
            self.v.get(p)
        } else {
            None
        }
    }
}
pub struct IterMut<'a, T> {
    v: *mut VVec<T>,
    pos: usize,
    _m: core::marker::PhantomData<&'a mut T>,
}
impl<'a, T> Iterator for IterMut<'a, T> {
    type Item = &'a mut T;
    fn next(&mut self) -> Option<&'a mut T> {
        let v: &'a mut VVec<T> = unsafe { &mut *self.v };
        if self.pos < v.n {
            let p = self.pos;
            self.pos += 1;
            v.items[p].as_mut()
        } else {
            None
        }
    }
}
impl<'a, T> IntoIterator for &'a mut VVec<T> {
    type Item = &'a mut T;
    type IntoIter = IterMut<'a, T>;
    fn into_iter(self) -> IterMut<'a, T> {
        self.iter_mut()
    }
}
pub struct IntoIter<T> {
    v: VVec<T>,
    pos: usize,
}
impl<T> Iterator for IntoIter<T> {
    type Item = T;
    fn next(&mut self) -> Option<T> {
        if self.pos < self.v.n {
            let p = self.pos;
            self.pos += 1;
            self.v.items[p].take()
        } else {
            None
        }
    }
}
impl<T> IntoIterator for VVec<T> {
    type Item = T;
    type IntoIter = IntoIter<T>;
    fn into_iter(self) -> IntoIter<T> {
        IntoIter { v: self, pos: 0 }
    }
}
impl<'a, T> IntoIterator for &'a VVec<T> {
    type Item = &'a T;
    type IntoIter = Iter<'a, T>;
    fn into_iter(self) -> Iter<'a, T> {
        self.iter()
    }
}
impl<T> Extend<T> for VVec<T> {
    fn extend<I: IntoIterator<Item = T>>(&mut self, iter: I) {
        for x in iter {
            self.push(x);
        }
    }
}
impl<T> FromIterator<T> for VVec<T> {
    fn from_iter<I: IntoIterator<Item = T>>(iter: I) -> Self {
        let mut v = VVec::new();
        v.extend(iter);
        v
    }
}

#[macro_export]
macro_rules! vvec {
    () => { $crate::vvec::VVec::new() };
    ($($x:expr),+ $(,)?) => {{
        let mut v = $crate::vvec::VVec::new();
        $( v.push($x); )+
        v
    }};
}

impl<T> crate::Havoc for VVec<T> {
    fn havoc() -> Self {
        panic!("vcoll: VVec values are not havocked (the owning map must be concrete)")
    }
}
