//! Replay-mode maps (`--cfg verif_replay`): the same API as map.rs, implemented as a thin
//! wrapper over the REAL `std::collections` types. A havoc map performs the same lazy
//! protocol as in verification mode -- the first touch of a key consumes the recorded
//! presence bit and value (in the same order) and inserts into the real std map -- so the
//! function text from /repo runs on real std collections with the verifier's input.
use core::cell::UnsafeCell;
use std::collections as sc;

use crate::havoc::{any_bool, Havoc};

/// owned key from a borrowed lookup form (needed only when a havoc map materialises a key on a lookup)
pub trait OwnFrom<Q: ?Sized>: Sized {
    fn own_from(q: &Q) -> Option<Self>;
}
impl<T: Clone> OwnFrom<T> for T {
    fn own_from(q: &T) -> Option<T> {
        Some(q.clone())
    }
}
impl OwnFrom<str> for String {
    fn own_from(q: &str) -> Option<String> {
        Some(q.to_string())
    }
}
impl<'a, T> OwnFrom<T> for &'a T {
    fn own_from(_q: &T) -> Option<&'a T> {
        None
    }
}
impl<'a> OwnFrom<str> for std::borrow::Cow<'a, str> {
    fn own_from(q: &str) -> Option<Self> {
        Some(std::borrow::Cow::Owned(q.to_string()))
    }
}

macro_rules! replay_map {
    ($Map:ident, $StdMap:ident, $StdSet:ident, $modname:ident, [$($kb:tt)*]) => {
        pub struct $Map<K, V> {
            inner: UnsafeCell<sc::$StdMap<K, V>>,
            touched: UnsafeCell<sc::$StdSet<K>>,
            havoc: bool,
        }
        pub mod $modname {
            pub use std::collections::$modname::{Entry, OccupiedEntry, VacantEntry};
            pub use super::$Map;
        }
        impl<K: $($kb)* + Clone, V> Default for $Map<K, V> {
            fn default() -> Self { Self::new() }
        }
        impl<K: $($kb)* + Clone, V: Clone> Clone for $Map<K, V> {
            fn clone(&self) -> Self {
                $Map {
                    inner: UnsafeCell::new(self.m().clone()),
                    touched: UnsafeCell::new(self.t().clone()),
                    havoc: self.havoc,
                }
            }
        }
        impl<K: core::fmt::Debug, V: core::fmt::Debug> core::fmt::Debug for $Map<K, V> {
            fn fmt(&self, f: &mut core::fmt::Formatter<'_>) -> core::fmt::Result {
                unsafe { (*self.inner.get()).fmt(f) }
            }
        }
        impl<K: $($kb)* + Clone, V> $Map<K, V> {
            pub fn new() -> Self {
                $Map { inner: UnsafeCell::new(sc::$StdMap::new()), touched: UnsafeCell::new(sc::$StdSet::new()), havoc: false }
            }
            pub fn arbitrary_unbounded() -> Self {
                $Map { inner: UnsafeCell::new(sc::$StdMap::new()), touched: UnsafeCell::new(sc::$StdSet::new()), havoc: true }
            }
            #[allow(clippy::mut_from_ref)]
            fn m(&self) -> &mut sc::$StdMap<K, V> { unsafe { &mut *self.inner.get() } }
            #[allow(clippy::mut_from_ref)]
            fn t(&self) -> &mut sc::$StdSet<K> { unsafe { &mut *self.touched.get() } }
            pub fn is_havoc(&self) -> bool { self.havoc }
            pub fn footprint(&self) -> usize { if self.havoc { self.t().len() } else { self.m().len() } }
            fn no_havoc(&self) {
                assert!(!self.havoc, "vcoll: iteration over an unbounded symbolic map is not modelled");
            }
            pub fn iter(&self) -> sc::$modname::Iter<'_, K, V> { self.no_havoc(); self.m().iter() }
            pub fn iter_mut(&mut self) -> sc::$modname::IterMut<'_, K, V> { self.no_havoc(); self.m().iter_mut() }
            pub fn keys(&self) -> sc::$modname::Keys<'_, K, V> { self.no_havoc(); self.m().keys() }
            pub fn values(&self) -> sc::$modname::Values<'_, K, V> { self.no_havoc(); self.m().values() }
            pub fn values_mut(&mut self) -> sc::$modname::ValuesMut<'_, K, V> { self.no_havoc(); self.m().values_mut() }
            pub fn len(&self) -> usize { self.no_havoc(); self.m().len() }
            pub fn is_empty(&self) -> bool { self.no_havoc(); self.m().is_empty() }
            pub fn clear(&mut self) { self.havoc = false; self.m().clear(); self.t().clear(); }
            pub fn retain<F: FnMut(&K, &mut V) -> bool>(&mut self, f: F) { self.no_havoc(); self.m().retain(f) }
        }
        impl<K: $($kb)* + Clone, V: Havoc> $Map<K, V> {
            fn touch<Q>(&self, k: &Q)
            where K: core::borrow::Borrow<Q> + OwnFrom<Q>, Q: $($kb)* + ?Sized,
            {
                if self.havoc && !self.t().contains(k) {
                    let owned = K::own_from(k).expect("vcoll: havoc lookup through this borrowed key form is not modelled");
                    self.t().insert(owned.clone());
                    if any_bool() {
                        self.m().insert(owned, V::havoc());
                    }
                }
            }
            pub fn get<Q>(&self, k: &Q) -> Option<&V>
            where K: core::borrow::Borrow<Q> + OwnFrom<Q>, Q: $($kb)* + ?Sized,
            { self.touch(k); self.m().get(k) }
            pub fn get_mut<Q>(&mut self, k: &Q) -> Option<&mut V>
            where K: core::borrow::Borrow<Q> + OwnFrom<Q>, Q: $($kb)* + ?Sized,
            { self.touch(k); self.m().get_mut(k) }
            pub fn contains_key<Q>(&self, k: &Q) -> bool
            where K: core::borrow::Borrow<Q> + OwnFrom<Q>, Q: $($kb)* + ?Sized,
            { self.touch(k); self.m().contains_key(k) }
            pub fn insert(&mut self, k: K, v: V) -> Option<V> { self.touch(&k); self.m().insert(k, v) }
            pub fn remove<Q>(&mut self, k: &Q) -> Option<V>
            where K: core::borrow::Borrow<Q> + OwnFrom<Q>, Q: $($kb)* + ?Sized,
            { self.touch(k); self.m().remove(k) }
            pub fn entry(&mut self, k: K) -> sc::$modname::Entry<'_, K, V> { self.touch(&k); self.m().entry(k) }
        }
        impl<K: $($kb)* + Clone, V> IntoIterator for $Map<K, V> {
            type Item = (K, V);
            type IntoIter = sc::$modname::IntoIter<K, V>;
            fn into_iter(self) -> Self::IntoIter { self.no_havoc(); self.inner.into_inner().into_iter() }
        }
        impl<'a, K: $($kb)* + Clone, V> IntoIterator for &'a $Map<K, V> {
            type Item = (&'a K, &'a V);
            type IntoIter = sc::$modname::Iter<'a, K, V>;
            fn into_iter(self) -> Self::IntoIter { self.iter() }
        }
        impl<K: $($kb)* + Clone, V: Havoc> Extend<(K, V)> for $Map<K, V> {
            fn extend<T: IntoIterator<Item = (K, V)>>(&mut self, iter: T) {
                for (k, v) in iter { self.insert(k, v); }
            }
        }
        impl<K: $($kb)* + Clone, V: Havoc> FromIterator<(K, V)> for $Map<K, V> {
            fn from_iter<T: IntoIterator<Item = (K, V)>>(iter: T) -> Self {
                let mut m = Self::new();
                m.extend(iter);
                m
            }
        }
    };
}

replay_map!(BTreeMap, BTreeMap, BTreeSet, btree_map, [Ord]);
replay_map!(HashMap, HashMap, HashSet, hash_map, [core::hash::Hash + Eq]);

macro_rules! replay_set {
    ($Set:ident, $StdSet:ident, $modname:ident, [$($kb:tt)*] $(, $extra:ty)*) => {
        pub struct $Set<K> {
            inner: UnsafeCell<sc::$StdSet<K>>,
            touched: UnsafeCell<sc::$StdSet<K>>,
            havoc: bool,
        }
        impl<K: $($kb)* + Clone> Default for $Set<K> {
            fn default() -> Self { Self::new() }
        }
        impl<K: $($kb)* + Clone> Clone for $Set<K> {
            fn clone(&self) -> Self {
                $Set { inner: UnsafeCell::new(self.m().clone()), touched: UnsafeCell::new(self.t().clone()), havoc: self.havoc }
            }
        }
        impl<K: core::fmt::Debug> core::fmt::Debug for $Set<K> {
            fn fmt(&self, f: &mut core::fmt::Formatter<'_>) -> core::fmt::Result {
                unsafe { (*self.inner.get()).fmt(f) }
            }
        }
        impl<K: $($kb)* + Clone> $Set<K> {
            pub fn new() -> Self {
                $Set { inner: UnsafeCell::new(sc::$StdSet::new()), touched: UnsafeCell::new(sc::$StdSet::new()), havoc: false }
            }
            pub fn arbitrary_unbounded() -> Self {
                $Set { inner: UnsafeCell::new(sc::$StdSet::new()), touched: UnsafeCell::new(sc::$StdSet::new()), havoc: true }
            }
            #[allow(clippy::mut_from_ref)]
            fn m(&self) -> &mut sc::$StdSet<K> { unsafe { &mut *self.inner.get() } }
            #[allow(clippy::mut_from_ref)]
            fn t(&self) -> &mut sc::$StdSet<K> { unsafe { &mut *self.touched.get() } }
            fn no_havoc(&self) {
                assert!(!self.havoc, "vcoll: iteration over an unbounded symbolic map is not modelled");
            }
            fn touch<Q>(&self, k: &Q)
            where K: core::borrow::Borrow<Q> + OwnFrom<Q>, Q: $($kb)* + ?Sized,
            {
                if self.havoc && !self.t().contains(k) {
                    let owned = K::own_from(k).expect("vcoll: havoc lookup through this borrowed key form is not modelled");
                    self.t().insert(owned.clone());
                    if any_bool() {
                        self.m().insert(owned);
                    }
                }
            }
            pub fn insert(&mut self, k: K) -> bool { self.touch(&k); self.m().insert(k) }
            pub fn remove<Q>(&mut self, k: &Q) -> bool
            where K: core::borrow::Borrow<Q> + OwnFrom<Q>, Q: $($kb)* + ?Sized,
            { self.touch(k); self.m().remove(k) }
            pub fn contains<Q>(&self, k: &Q) -> bool
            where K: core::borrow::Borrow<Q> + OwnFrom<Q>, Q: $($kb)* + ?Sized,
            { self.touch(k); self.m().contains(k) }
            pub fn iter(&self) -> sc::$modname::Iter<'_, K> { self.no_havoc(); self.m().iter() }
            pub fn len(&self) -> usize { self.no_havoc(); self.m().len() }
            pub fn is_empty(&self) -> bool { self.no_havoc(); self.m().is_empty() }
            pub fn clear(&mut self) { self.havoc = false; self.m().clear(); self.t().clear(); }
            pub fn retain<F: FnMut(&K) -> bool>(&mut self, f: F) { self.no_havoc(); self.m().retain(f) }
            pub fn difference<'a>(&'a self, other: &'a $Set<K>) -> sc::$modname::Difference<'a, K $(, $extra)*> {
                self.no_havoc();
                other.no_havoc();
                self.m().difference(other.m())
            }
        }
        impl<K: $($kb)* + Clone> IntoIterator for $Set<K> {
            type Item = K;
            type IntoIter = sc::$modname::IntoIter<K>;
            fn into_iter(self) -> Self::IntoIter { self.no_havoc(); self.inner.into_inner().into_iter() }
        }
        impl<K: $($kb)* + Clone> Extend<K> for $Set<K> {
            fn extend<T: IntoIterator<Item = K>>(&mut self, iter: T) {
                for k in iter { self.insert(k); }
            }
        }
        impl<K: $($kb)* + Clone> FromIterator<K> for $Set<K> {
            fn from_iter<T: IntoIterator<Item = K>>(iter: T) -> Self {
                let mut s = Self::new();
                s.extend(iter);
                s
            }
        }
    };
}
replay_set!(BTreeSet, BTreeSet, btree_set, [Ord]);
replay_set!(HashSet, HashSet, hash_set, [core::hash::Hash + Eq], std::collections::hash_map::RandomState);
