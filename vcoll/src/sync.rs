//! Single-threaded stand-ins for sharing/locking primitives (Kani has no threads):
//! `Arc` is a leak-based shared pointer (clone copies the pointer, the pointee is never freed),
//! `Mutex`/`RwLock` are single-owner cells (ASSUMPTION: a lock grants exclusive access and
//! a guard is not held across an await), `AtomicCell` is a `Cell`.
use core::cell::{Cell, UnsafeCell};

pub struct Arc<T: ?Sized> {
    p: *const T,
}
impl<T> Arc<T> {
    pub fn new(v: T) -> Self {
        Arc { p: Box::leak(Box::new(v)) as *const T }
    }
}
impl<T: ?Sized> Arc<T> {
    pub fn from_box(b: Box<T>) -> Self {
        Arc { p: Box::leak(b) as *const T }
    }
    pub fn ptr_eq(a: &Self, b: &Self) -> bool {
        core::ptr::eq(a.p as *const u8, b.p as *const u8)
    }
}
impl<T: ?Sized> Clone for Arc<T> {
    fn clone(&self) -> Self {
        Arc { p: self.p }
    }
}
impl<T: ?Sized> core::ops::Deref for Arc<T> {
    type Target = T;
    fn deref(&self) -> &T {
        unsafe { &*self.p }
    }
}
impl<T: Default> Default for Arc<T> {
    fn default() -> Self {
        Arc::new(T::default())
    }
}
impl<T: ?Sized> core::fmt::Debug for Arc<T> {
    fn fmt(&self, _f: &mut core::fmt::Formatter<'_>) -> core::fmt::Result {
        Ok(())
    }
}

pub struct Mutex<T> {
    v: UnsafeCell<T>,
}
impl<T: Default> Default for Mutex<T> {
    fn default() -> Self {
        Mutex::new(T::default())
    }
}
impl<T> Mutex<T> {
    pub fn new(v: T) -> Self {
        Mutex { v: UnsafeCell::new(v) }
    }
    #[allow(clippy::mut_from_ref)]
    pub fn lock(&self) -> &mut T {
        unsafe { &mut *self.v.get() }
    }
}
pub struct RwLock<T> {
    v: UnsafeCell<T>,
}
impl<T: Default> Default for RwLock<T> {
    fn default() -> Self {
        RwLock::new(T::default())
    }
}
impl<T> RwLock<T> {
    pub fn new(v: T) -> Self {
        RwLock { v: UnsafeCell::new(v) }
    }
    #[allow(clippy::mut_from_ref)]
    pub fn write(&self) -> &mut T {
        unsafe { &mut *self.v.get() }
    }
    pub fn read(&self) -> &T {
        unsafe { &*self.v.get() }
    }
}

pub struct AtomicCell<T: Copy> {
    v: Cell<T>,
}
impl<T: Copy> AtomicCell<T> {
    pub fn new(v: T) -> Self {
        AtomicCell { v: Cell::new(v) }
    }
    pub fn store(&self, v: T) {
        self.v.set(v)
    }
    pub fn load(&self) -> T {
        self.v.get()
    }
}
impl<T: Copy> core::fmt::Debug for AtomicCell<T> {
    fn fmt(&self, _f: &mut core::fmt::Formatter<'_>) -> core::fmt::Result {
        Ok(())
    }
}

impl<T: crate::Havoc> crate::Havoc for Arc<T> {
    fn havoc() -> Self {
        Arc::new(T::havoc())
    }
}
impl<T: Copy + crate::Havoc> crate::Havoc for AtomicCell<T> {
    fn havoc() -> Self {
        AtomicCell::new(T::havoc())
    }
}
