//! Minimal executor for the sliced `async fn`s: every await point in the stand-ins is
//! immediately ready, so a single poll loop with a no-op waker runs a future to completion.
use core::future::Future;
use core::pin::Pin;
use core::task::{Context, Poll, RawWaker, RawWakerVTable, Waker};

fn noop_raw() -> RawWaker {
    fn clone(_: *const ()) -> RawWaker {
        noop_raw()
    }
    fn noop(_: *const ()) {}
    static VT: RawWakerVTable = RawWakerVTable::new(clone, noop, noop, noop);
    RawWaker::new(core::ptr::null(), &VT)
}

/// Polls `fut` until ready. `max_polls` bounds the loop for CBMC (stand-in awaits are
/// ready at once; a yielding stand-in needs one extra poll per yield).
pub fn block_on_n<F: Future>(fut: F, max_polls: usize) -> F::Output {
    let waker = unsafe { Waker::from_raw(noop_raw()) };
    let mut cx = Context::from_waker(&waker);
    let mut fut = fut;
    // SAFETY: `fut` is never moved after being pinned here.
    let mut fut = unsafe { Pin::new_unchecked(&mut fut) };
    let mut i = 0;
    while i < max_polls {
        if let Poll::Ready(v) = fut.as_mut().poll(&mut cx) {
            return v;
        }
        i += 1;
    }
    panic!("vcoll: future still pending after max_polls (stand-in await never became ready)");
}

/// Single poll: every await point of the stand-ins is immediately ready, so the sliced
/// `async fn` completes in its first poll. (A poll LOOP makes CBMC re-instantiate the whole state
/// machine per iteration -- measured: out of memory at 24 GB -- so there is none.)
pub fn block_on<F: Future>(fut: F) -> F::Output {
    let waker = unsafe { Waker::from_raw(noop_raw()) };
    let mut cx = Context::from_waker(&waker);
    let mut fut = fut;
    // SAFETY: `fut` is never moved after being pinned here.
    let fut = unsafe { Pin::new_unchecked(&mut fut) };
    match fut.poll(&mut cx) {
        Poll::Ready(v) => v,
        Poll::Pending => panic!("vcoll: future pending after its first poll (a stand-in await was not ready)"),
    }
}
