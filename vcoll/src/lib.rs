//! `vcoll`: trusted stand-ins for the `std::collections` API subset used by the code
//! sliced out of /repo, so that Kani can reason about it (std's B-tree / SipHash code is
//! intractable for CBMC, see DESIGN.md section 1).
//!
//! Two modes per map:
//! * **havoc (unbounded)** `Map::arbitrary_unbounded()`: stands for ANY map of ANY size.
//!   The first time a key is looked at its presence and value are chosen
//!   nondeterministically and remembered in a footprint table (capacity `CAP`).
//!   Iterating such a map, or touching more than `CAP` distinct keys, is an assertion
//!   failure tagged "vcoll:" which the driver reports as *undecided*, never as a violation.
//! * **concrete (bounded)** `Map::new()`: an ordinary small map (capacity `CAP`), used
//!   by bounded obligations of functions that iterate.
//!
//! Under `--cfg verif_replay` (native replay of a counterexample) the same API is a thin
//! wrapper over the REAL `std::collections` types performing the same lazy protocol, so
//! the function text from /repo runs on real std maps with the verifier's input.
//!
//! This crate is to Kani what `vstd::std_specs` is to Verus: an assumed contract on a
//! dependency. It is validated differentially against std (tests/differential.rs).
#![allow(clippy::all)]
#![allow(dead_code)]

pub mod havoc;
pub use havoc::Havoc;
pub mod vkey;
pub use vkey::VKey;

#[cfg(not(verif_replay))]
mod map;
#[cfg(not(verif_replay))]
pub use map::*;

#[cfg(verif_replay)]
mod std_map;
#[cfg(verif_replay)]
pub use std_map::*;

pub mod bitset;
pub mod exec;
pub mod sync;
pub mod vvec;

/// Footprint / concrete capacity. Fixed per build with `--cfg vcoll_cap="N"`-free scheme:
/// selected through the VCOLL_CAP environment variable at compile time (default 4).
pub const CAP: usize = parse_cap(option_env!("VCOLL_CAP"));

pub const fn parse_vcap(s: Option<&str>) -> usize {
    match s {
        None => 2 * CAP,
        Some(_) => parse_cap(s),
    }
}

const fn parse_cap(s: Option<&str>) -> usize {
    match s {
        None => 4,
        Some(s) => {
            let b = s.as_bytes();
            let mut i = 0;
            let mut v = 0usize;
            while i < b.len() {
                v = v * 10 + (b[i] - b'0') as usize;
                i += 1;
            }
            v
        },
    }
}
