//! Key identity for vcoll maps. Keys are compared through `vkey()` (a u64) instead of
//! `PartialEq`, so that `String`-like keys do not drag `memcmp`/allocation reasoning into CBMC
//! (measured: three operations on a `String`-keyed map = 2.7 M SAT variables).
//! For integers it is the identity. For strings it is injective only on strings of length <= 7
//! (bytes packed into the u64 with the length); longer keys are a model limit
//! ("vcoll:" assertion => undecided, never a violation).
pub trait VKey {
    fn vkey(&self) -> u64;
}
macro_rules! vkey_int {
    ($($t:ty),*) => {$( impl VKey for $t { fn vkey(&self) -> u64 { *self as u64 } } )*};
}
vkey_int!(u8, u16, u32, u64, usize, bool, char);

impl VKey for str {
    fn vkey(&self) -> u64 {
        let b = self.as_bytes();
        assert!(b.len() <= 7, "vcoll: string keys longer than 7 bytes are not modelled");
        let mut v = b.len() as u64;
        let mut i = 0;
        while i < 7 {
            if i < b.len() {
                v = (v << 8) | b[i] as u64;
            }
            i += 1;
        }
        v
    }
}
impl VKey for String {
    fn vkey(&self) -> u64 {
        self.as_str().vkey()
    }
}
impl<'a> VKey for std::borrow::Cow<'a, str> {
    fn vkey(&self) -> u64 {
        self.as_ref().vkey()
    }
}
impl<T: VKey + ?Sized> VKey for &T {
    fn vkey(&self) -> u64 {
        (**self).vkey()
    }
}
