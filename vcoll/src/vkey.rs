//! Key identity for vcoll maps. Keys are compared through `vkey()` (a u64) instead of
//! `PartialEq`, so that `String`-like keys do not drag `memcmp`/allocation reasoning into CBMC
//! (measured: three operations on a `String`-keyed map = 2.7 M SAT variables).
//! Identities are ORDER-PRESERVING (a < b <=> a.vkey() < b.vkey()), so sorted iteration compares
//! identities and never calls `Ord` on the keys (Ipv4Addr / String comparisons go through memcmp,
//! which dominated symbolic execution). For integers it is the identity. For strings it is injective only on strings of length <= 7
//! (bytes packed into the u64 with the length); longer keys are a model limit
//! ("vcoll:" assertion => undecided, never a violation).
pub trait VKey {
    fn vkey(&self) -> u64;
}
macro_rules! vkey_int {
    ($($t:ty),*) => {$( impl VKey for $t { fn vkey(&self) -> u64 { *self as u64 } } )*};
}
vkey_int!(u8, u16, u32, u64, usize, bool, char);

impl VKey for str {
    /// loop-free and ORDER-PRESERVING: the first 7 bytes big-endian, then the length, so that
    /// comparing identities == comparing the strings lexicographically (strings without NUL bytes)
    fn vkey(&self) -> u64 {
        let b = self.as_bytes();
        let n = b.len();
        assert!(n <= 7, "vcoll: string keys longer than 7 bytes are not modelled");
        let at = |i: usize| -> u64 { if i < n { (b[i] as u64) << (8 * (7 - i)) } else { 0 } };
        at(0) | at(1) | at(2) | at(3) | at(4) | at(5) | at(6) | (n as u64)
    }
}
impl VKey for String {
    fn vkey(&self) -> u64 {
        self.as_str().vkey()
    }
}
impl<'a> VKey for std::borrow::Cow<'a, str> {
    fn vkey(&self) -> u64 {
        self.as_ref().vkey()
    }
}
impl<T: VKey + ?Sized> VKey for &T {
    fn vkey(&self) -> u64 {
        (**self).vkey()
    }
}

impl VKey for std::net::SocketAddr {
    /// IPv4 address and port packed into 48 bits (injective); IPv6 is a model limit
    fn vkey(&self) -> u64 {
        match self {
            std::net::SocketAddr::V4(a) => ((u32::from(*a.ip()) as u64) << 16) | a.port() as u64,
            std::net::SocketAddr::V6(_) => panic!("vcoll: IPv6 socket addresses are not modelled as keys"),
        }
    }
}
impl VKey for (u8, std::net::SocketAddr) {
    fn vkey(&self) -> u64 {
        ((self.0 as u64) << 48) | self.1.vkey()
    }
}

/// Opaque identifier standing in for a value the sliced code only copies, compares and uses as a map/set key
/// (a socket address, a data-centre or keyspace name) where the real type drags byte-level reasoning
/// (memcmp, enum-in-union layouts, heap strings) into CBMC.
#[derive(Clone, Copy, PartialEq, Eq, PartialOrd, Ord, Debug, Hash, Default)]
pub struct OpaqueId(pub u64);
impl VKey for OpaqueId {
    fn vkey(&self) -> u64 {
        self.0
    }
}
impl VKey for (u8, OpaqueId) {
    fn vkey(&self) -> u64 {
        assert!(self.1 .0 < (1u64 << 56), "vcoll: opaque ids paired with a u8 must fit 56 bits");
        ((self.0 as u64) << 56) | self.1 .0
    }
}
impl crate::Havoc for OpaqueId {
    fn havoc() -> Self {
        OpaqueId(<u64 as crate::Havoc>::havoc())
    }
}
