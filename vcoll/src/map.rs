//! Verification-mode maps (see crate docs). One implementation backs `BTreeMap`
//! (iteration sorted by key) and `HashMap` (iteration in insertion order = one of the
//! orders std may produce).
use core::cell::UnsafeCell;

use crate::havoc::{any_bool, Havoc};
use crate::vkey::VKey;
use crate::CAP;

pub struct Map<K, V, const SORTED: bool> {
    /// boxed: each map's storage is its own heap object, so that a struct embedding several
    /// maps does not become one large object for CBMC (measured: 2.5x fewer variables, 60x less solver time)
    ///
    /// feature `inline`: the storage lives in the Map value itself. A heap object is an untyped byte array for CBMC: every field
    /// access becomes a byte_extract at an offset and NOTHING is constant-propagated (a fully concrete membership transition cost
    /// 15 M SAT variables); an inline struct is split into one symbol per field. Units with few, concrete maps use `inline`.
    inner: Store<Inner<K, V>>,
}
#[cfg(not(feature = "inline"))]
type Store<T> = Box<UnsafeCell<T>>;
#[cfg(feature = "inline")]
type Store<T> = UnsafeCell<T>;
#[cfg(not(feature = "inline"))]
fn store<T>(v: T) -> Store<T> {
    Box::new(UnsafeCell::new(v))
}
#[cfg(feature = "inline")]
fn store<T>(v: T) -> Store<T> {
    UnsafeCell::new(v)
}

struct Inner<K, V> {
    havoc: bool,
    n: usize,
    /// identities (VKey) of the touched / stored keys (first `n` are in use)
    ids: [u64; CAP],
    /// the owned key, when the slot was created through `insert`/`entry` (always, for concrete maps);
    /// a slot created by a lookup miss on a havoc map carries only the identity
    keys: [Option<K>; CAP],
    /// value per key; `None` = key known to be absent
    vals: [Option<V>; CAP],
}

pub type BTreeMap<K, V> = Map<K, V, true>;
pub type HashMap<K, V> = Map<K, V, false>;

pub mod btree_map {
    pub use super::{BTreeMap, Entry, OccupiedEntry, VacantEntry};
}
pub mod hash_map {
    pub use super::{Entry, HashMap, OccupiedEntry, VacantEntry};
}

fn empty<T>() -> [Option<T>; CAP] {
    [const { None }; CAP]
}
/// element-wise clone with a loop counter. `<[T; N] as Clone>::clone` goes through `array::try_from_fn` (MaybeUninit + raw pointer
/// writes), after which CBMC can no longer constant-propagate the contents: a fully CONCRETE membership transition cost 15 M SAT variables.
fn clone_slots<T: Clone>(a: &[Option<T>; CAP]) -> [Option<T>; CAP] {
    let mut out: [Option<T>; CAP] = empty();
    let mut i = 0;
    while i < CAP {
        if let Some(v) = &a[i] {
            out[i] = Some(v.clone());
        }
        i += 1;
    }
    out
}

impl<K, V, const S: bool> Default for Map<K, V, S> {
    fn default() -> Self {
        Self::new()
    }
}

impl<K: Clone, V: Clone, const S: bool> Clone for Map<K, V, S> {
    fn clone(&self) -> Self {
        let i = unsafe { &*self.inner.get() };
        Map { inner: store(Inner { havoc: i.havoc, n: i.n, ids: i.ids, keys: clone_slots(&i.keys), vals: clone_slots(&i.vals) }) }
    }
}

impl<K, V, const S: bool> core::fmt::Debug for Map<K, V, S> {
    fn fmt(&self, _f: &mut core::fmt::Formatter<'_>) -> core::fmt::Result {
        Ok(())
    }
}

impl<K, V, const S: bool> Map<K, V, S> {
    pub fn new() -> Self {
        Map { inner: store(Inner { havoc: false, n: 0, ids: [0; CAP], keys: empty(), vals: empty() }) }
    }

    /// A map standing for an arbitrary map of arbitrary size (havoc mode).
    pub fn arbitrary_unbounded() -> Self {
        Map { inner: store(Inner { havoc: true, n: 0, ids: [0; CAP], keys: empty(), vals: empty() }) }
    }

    #[allow(clippy::mut_from_ref)]
    fn i(&self) -> &mut Inner<K, V> {
        unsafe { &mut *self.inner.get() }
    }

    pub fn is_havoc(&self) -> bool {
        self.i().havoc
    }

    /// Number of distinct keys looked at so far (footprint size).
    pub fn footprint(&self) -> usize {
        self.i().n
    }
}

impl<K: VKey + Clone, V: Havoc, const S: bool> Map<K, V, S> {
    /// Pointer to the value cell of a key identity already in the table. Every array access uses a
    /// loop counter, i.e. a CONCRETE index after unwinding: CBMC never sees a symbolic array offset.
    fn find(&self, id: u64) -> Option<(usize, *mut Option<V>)> {
        let i = self.i();
        let mut p = 0;
        while p < CAP {
            if p < i.n && i.ids[p] == id {
                return Some((p, &mut i.vals[p] as *mut Option<V>));
            }
            p += 1;
        }
        None
    }

    /// Allocates the cell for a key identity not yet in the table; in havoc mode its presence
    /// and value are chosen nondeterministically (first touch).
    fn alloc(&self, id: u64, k: Option<K>) -> *mut Option<V> {
        let i = self.i();
        assert!(i.n < CAP, "vcoll: footprint capacity exceeded");
        let v = if i.havoc && any_bool() { Some(V::havoc()) } else { None };
        let mut p = 0;
        while p < CAP {
            if p == i.n {
                i.ids[p] = id;
                i.keys[p] = k;
                i.vals[p] = v;
                i.n += 1;
                return &mut i.vals[p] as *mut Option<V>;
            }
            p += 1;
        }
        unreachable!()
    }

    /// cell for an owned key (insert / entry): remembers the key itself for iteration
    fn cell(&self, k: &K) -> *mut Option<V> {
        let id = k.vkey();
        match self.find(id) {
            Some((p, c)) => {
                let i = self.i();
                let mut q = 0;
                while q < CAP {
                    if q == p && i.keys[q].is_none() {
                        i.keys[q] = Some(k.clone());
                    }
                    q += 1;
                }
                c
            },
            None => self.alloc(id, Some(k.clone())),
        }
    }

    /// lookup that never stores anything for a concrete map (a miss is just a miss)
    fn peek<Q>(&self, k: &Q) -> Option<*mut Option<V>>
    where
        K: core::borrow::Borrow<Q>,
        Q: VKey + ?Sized,
    {
        let id = k.vkey();
        match self.find(id) {
            Some((_, c)) => Some(c),
            None => {
                if self.i().havoc {
                    Some(self.alloc(id, None))
                } else {
                    None
                }
            },
        }
    }

    pub fn get<Q>(&self, k: &Q) -> Option<&V>
    where
        K: core::borrow::Borrow<Q>,
        Q: VKey + ?Sized,
    {
        match self.peek(k) {
            Some(c) => unsafe { (*c).as_ref() },
            None => None,
        }
    }

    pub fn get_mut<Q>(&mut self, k: &Q) -> Option<&mut V>
    where
        K: core::borrow::Borrow<Q>,
        Q: VKey + ?Sized,
    {
        match self.peek(k) {
            Some(c) => unsafe { (*c).as_mut() },
            None => None,
        }
    }

    pub fn contains_key<Q>(&self, k: &Q) -> bool
    where
        K: core::borrow::Borrow<Q>,
        Q: VKey + ?Sized,
    {
        self.get(k).is_some()
    }

    pub fn insert(&mut self, k: K, v: V) -> Option<V> {
        unsafe { (*self.cell(&k)).replace(v) }
    }

    pub fn remove<Q>(&mut self, k: &Q) -> Option<V>
    where
        K: core::borrow::Borrow<Q>,
        Q: VKey + ?Sized,
    {
        match self.peek(k) {
            Some(c) => unsafe { (*c).take() },
            None => None,
        }
    }

    pub fn entry(&mut self, k: K) -> Entry<'_, K, V, S> {
        let c = self.cell(&k);
        if unsafe { (*c).is_some() } {
            Entry::Occupied(OccupiedEntry { c, _m: core::marker::PhantomData })
        } else {
            Entry::Vacant(VacantEntry { c, _m: core::marker::PhantomData })
        }
    }
}

pub enum Entry<'a, K, V, const S: bool> {
    Occupied(OccupiedEntry<'a, K, V, S>),
    Vacant(VacantEntry<'a, K, V, S>),
}
pub struct OccupiedEntry<'a, K, V, const S: bool> {
    c: *mut Option<V>,
    _m: core::marker::PhantomData<&'a mut Map<K, V, S>>,
}
pub struct VacantEntry<'a, K, V, const S: bool> {
    c: *mut Option<V>,
    _m: core::marker::PhantomData<&'a mut Map<K, V, S>>,
}

impl<'a, K, V, const S: bool> OccupiedEntry<'a, K, V, S> {
    fn cell(&self) -> &'a mut Option<V> {
        unsafe { &mut *self.c }
    }
    pub fn get(&self) -> &V {
        self.cell().as_ref().unwrap()
    }
    pub fn get_mut(&mut self) -> &mut V {
        self.cell().as_mut().unwrap()
    }
    pub fn insert(&mut self, v: V) -> V {
        self.cell().replace(v).unwrap()
    }
    pub fn into_mut(self) -> &'a mut V {
        self.cell().as_mut().unwrap()
    }
    pub fn remove(self) -> V {
        self.cell().take().unwrap()
    }
}
impl<'a, K, V, const S: bool> VacantEntry<'a, K, V, S> {
    pub fn insert(self, v: V) -> &'a mut V {
        let s: &'a mut Option<V> = unsafe { &mut *self.c };
        *s = Some(v);
        s.as_mut().unwrap()
    }
}
impl<'a, K, V, const S: bool> Entry<'a, K, V, S> {
    pub fn and_modify<F: FnOnce(&mut V)>(self, f: F) -> Self {
        match self {
            Entry::Occupied(o) => {
                f(o.cell().as_mut().unwrap());
                Entry::Occupied(o)
            },
            Entry::Vacant(v) => Entry::Vacant(v),
        }
    }
    pub fn or_insert_with<F: FnOnce() -> V>(self, f: F) -> &'a mut V {
        match self {
            Entry::Occupied(o) => o.into_mut(),
            Entry::Vacant(v) => v.insert(f()),
        }
    }
    pub fn or_insert(self, default: V) -> &'a mut V {
        match self {
            Entry::Occupied(o) => o.into_mut(),
            Entry::Vacant(v) => v.insert(default),
        }
    }
    pub fn or_default(self) -> &'a mut V
    where
        V: Default,
    {
        match self {
            Entry::Occupied(o) => o.into_mut(),
            Entry::Vacant(v) => v.insert(V::default()),
        }
    }
}

// ---------------------------------------------------------------------------
// Iteration: concrete (bounded) maps only.
// Order: SORTED => ascending key order (BTreeMap); otherwise slot order.

/// index of the next present slot in iteration order after `last` (None = start)
fn next_index<K: PartialOrd, V, const S: bool>(i: &Inner<K, V>, last: Option<usize>, pos: usize) -> Option<usize> {
    if !S {
        let mut p = 0;
        while p < CAP {
            if p >= pos && p < i.n && i.vals[p].is_some() {
                return Some(p);
            }
            p += 1;
        }
        return None;
    }
    // smallest key identity strictly greater than the identity at `last` (identities are order-preserving)
    let mut best: Option<usize> = None;
    let mut p = 0;
    while p < CAP {
        if p < i.n && i.vals[p].is_some() {
            let k = i.ids[p];
            let after_last = match last {
                None => true,
                Some(l) => k > i.ids[l],
            };
            if after_last {
                let better = match best {
                    None => true,
                    Some(b) => k < i.ids[b],
                };
                if better {
                    best = Some(p);
                }
            }
        }
        p += 1;
    }
    best
}

pub struct Iter<'a, K, V, const S: bool> {
    m: &'a Map<K, V, S>,
    last: Option<usize>,
    pos: usize,
}
impl<'a, K: PartialOrd, V, const S: bool> Iterator for Iter<'a, K, V, S> {
    type Item = (&'a K, &'a V);
    fn next(&mut self) -> Option<Self::Item> {
        let i: &'a Inner<K, V> = unsafe { &*self.m.inner.get() };
        let p = next_index::<K, V, S>(i, self.last, self.pos)?;
        self.last = Some(p);
        self.pos = p + 1;
        Some((i.keys[p].as_ref().unwrap(), i.vals[p].as_ref().unwrap()))
    }
}

pub struct IterMut<'a, K, V, const S: bool> {
    m: &'a Map<K, V, S>,
    last: Option<usize>,
    pos: usize,
}
impl<'a, K: PartialOrd, V, const S: bool> Iterator for IterMut<'a, K, V, S> {
    type Item = (&'a K, &'a mut V);
    fn next(&mut self) -> Option<Self::Item> {
        let i: &'a mut Inner<K, V> = unsafe { &mut *self.m.inner.get() };
        let p = next_index::<K, V, S>(i, self.last, self.pos)?;
        self.last = Some(p);
        self.pos = p + 1;
        Some((i.keys[p].as_ref().unwrap(), i.vals[p].as_mut().unwrap()))
    }
}

pub struct IntoIter<K, V, const S: bool> {
    inner: Inner<K, V>,
    pos: usize,
}
impl<K: PartialOrd + Clone, V, const S: bool> Iterator for IntoIter<K, V, S> {
    type Item = (K, V);
    fn next(&mut self) -> Option<(K, V)> {
        // taken values become None, so "no last key" + sorted search yields ascending order
        let p = next_index::<K, V, S>(&self.inner, None, self.pos)?;
        if !S {
            self.pos = p + 1;
        }
        let v = self.inner.vals[p].take().unwrap();
        Some((self.inner.keys[p].clone().unwrap(), v))
    }
}

impl<K: PartialOrd + Clone, V, const S: bool> IntoIterator for Map<K, V, S> {
    type Item = (K, V);
    type IntoIter = IntoIter<K, V, S>;
    fn into_iter(self) -> IntoIter<K, V, S> {
        #[cfg(not(feature = "inline"))]
        let inner = (*self.inner).into_inner();
        #[cfg(feature = "inline")]
        let inner = self.inner.into_inner();
        assert!(!inner.havoc, "vcoll: iteration over an unbounded symbolic map is not modelled");
        IntoIter { inner, pos: 0 }
    }
}
impl<'a, K: PartialOrd, V, const S: bool> IntoIterator for &'a Map<K, V, S> {
    type Item = (&'a K, &'a V);
    type IntoIter = Iter<'a, K, V, S>;
    fn into_iter(self) -> Iter<'a, K, V, S> {
        self.iter()
    }
}

impl<'a, K: PartialOrd, V, const S: bool> IntoIterator for &'a mut Map<K, V, S> {
    type Item = (&'a K, &'a mut V);
    type IntoIter = IterMut<'a, K, V, S>;
    fn into_iter(self) -> IterMut<'a, K, V, S> {
        self.iter_mut()
    }
}

impl<K, V, const S: bool> Map<K, V, S> {
    fn no_havoc(&self) {
        assert!(!self.i().havoc, "vcoll: iteration over an unbounded symbolic map is not modelled");
    }
    pub fn iter(&self) -> Iter<'_, K, V, S> {
        self.no_havoc();
        Iter { m: self, last: None, pos: 0 }
    }
    pub fn iter_mut(&mut self) -> IterMut<'_, K, V, S> {
        self.no_havoc();
        IterMut { m: self, last: None, pos: 0 }
    }
    pub fn len(&self) -> usize {
        self.no_havoc();
        let i = self.i();
        let mut c = 0;
        let mut p = 0;
        while p < CAP {
            if p < i.n && i.vals[p].is_some() {
                c += 1;
            }
            p += 1;
        }
        c
    }
    pub fn is_empty(&self) -> bool {
        self.len() == 0
    }
    pub fn clear(&mut self) {
        // defined for havoc maps too: afterwards the map is the (concrete) empty map
        let i = self.i();
        i.havoc = false;
        i.n = 0;
        i.ids = [0; CAP];
        i.keys = empty();
        i.vals = empty();
    }
}

impl<K: PartialOrd, V, const S: bool> Map<K, V, S> {
    pub fn keys(&self) -> impl Iterator<Item = &K> + '_ {
        self.iter().map(|(k, _)| k)
    }
    pub fn values(&self) -> impl Iterator<Item = &V> + '_ {
        self.iter().map(|(_, v)| v)
    }
    pub fn values_mut(&mut self) -> impl Iterator<Item = &mut V> + '_ {
        self.iter_mut().map(|(_, v)| v)
    }
    pub fn retain<F: FnMut(&K, &mut V) -> bool>(&mut self, mut f: F) {
        self.no_havoc();
        let i = self.i();
        let mut p = 0;
        while p < CAP {
            if p < i.n {
                let keep = match &mut i.vals[p] {
                    Some(vv) => f(i.keys[p].as_ref().unwrap(), vv),
                    None => true,
                };
                if !keep {
                    i.vals[p] = None;
                }
            }
            p += 1;
        }
    }
}

impl<K: VKey + Clone, V: Havoc, const S: bool> Extend<(K, V)> for Map<K, V, S> {
    fn extend<T: IntoIterator<Item = (K, V)>>(&mut self, iter: T) {
        for (k, v) in iter {
            self.insert(k, v);
        }
    }
}
impl<K: VKey + Clone, V: Havoc, const S: bool> FromIterator<(K, V)> for Map<K, V, S> {
    fn from_iter<T: IntoIterator<Item = (K, V)>>(iter: T) -> Self {
        let mut m = Map::new();
        m.extend(iter);
        m
    }
}

// ---------------------------------------------------------------------------
pub struct Set<K, const S: bool> {
    m: Map<K, (), S>,
}
pub type HashSet<K> = Set<K, false>;
pub type BTreeSet<K> = Set<K, true>;

impl<K, const S: bool> Default for Set<K, S> {
    fn default() -> Self {
        Set { m: Map::new() }
    }
}
impl<K: Clone, const S: bool> Clone for Set<K, S> {
    fn clone(&self) -> Self {
        Set { m: self.m.clone() }
    }
}
impl<K, const S: bool> core::fmt::Debug for Set<K, S> {
    fn fmt(&self, _f: &mut core::fmt::Formatter<'_>) -> core::fmt::Result {
        Ok(())
    }
}
impl<K, const S: bool> Set<K, S> {
    pub fn new() -> Self {
        Set { m: Map::new() }
    }
    pub fn arbitrary_unbounded() -> Self {
        Set { m: Map::arbitrary_unbounded() }
    }
    pub fn len(&self) -> usize {
        self.m.len()
    }
    pub fn is_empty(&self) -> bool {
        self.m.is_empty()
    }
    pub fn clear(&mut self) {
        self.m.clear()
    }
}
impl<K: VKey + Clone, const S: bool> Set<K, S> {
    pub fn insert(&mut self, k: K) -> bool {
        self.m.insert(k, ()).is_none()
    }
    pub fn remove<Q>(&mut self, k: &Q) -> bool
    where
        K: core::borrow::Borrow<Q>,
        Q: VKey + ?Sized,
    {
        self.m.remove(k).is_some()
    }
    pub fn contains<Q>(&self, k: &Q) -> bool
    where
        K: core::borrow::Borrow<Q>,
        Q: VKey + ?Sized,
    {
        self.m.contains_key(k)
    }
}
impl<K: PartialOrd + VKey + Clone, const S: bool> Set<K, S> {
    /// items of `self` that are not in `other`, in `self`'s iteration order
    pub fn difference<'a>(&'a self, other: &'a Set<K, S>) -> impl Iterator<Item = &'a K> + 'a {
        self.iter().filter(move |k| !other.contains(*k))
    }
}
impl<K: PartialOrd, const S: bool> Set<K, S> {
    pub fn iter(&self) -> impl Iterator<Item = &K> + '_ {
        self.m.iter().map(|(k, _)| k)
    }
    pub fn retain<F: FnMut(&K) -> bool>(&mut self, mut f: F) {
        self.m.retain(|k, _| f(k))
    }
}
impl<K, const S: bool> Havoc for Set<K, S> {
    fn havoc() -> Self {
        Set::arbitrary_unbounded()
    }
}
impl<K, V, const S: bool> Havoc for Map<K, V, S> {
    fn havoc() -> Self {
        Map::arbitrary_unbounded()
    }
}
pub mod btree_set {
    pub use super::BTreeSet;
}
pub mod hash_set {
    pub use super::HashSet;
}

pub struct SetIntoIter<K, const S: bool> {
    it: IntoIter<K, (), S>,
}
impl<K: PartialOrd + Clone, const S: bool> Iterator for SetIntoIter<K, S> {
    type Item = K;
    fn next(&mut self) -> Option<K> {
        self.it.next().map(|x| x.0)
    }
}
impl<K: PartialOrd + Clone, const S: bool> IntoIterator for Set<K, S> {
    type Item = K;
    type IntoIter = SetIntoIter<K, S>;
    fn into_iter(self) -> SetIntoIter<K, S> {
        SetIntoIter { it: self.m.into_iter() }
    }
}
impl<K: VKey + Clone, const S: bool> Extend<K> for Set<K, S> {
    fn extend<T: IntoIterator<Item = K>>(&mut self, iter: T) {
        for k in iter {
            self.insert(k);
        }
    }
}
impl<K: VKey + Clone, const S: bool> FromIterator<K> for Set<K, S> {
    fn from_iter<T: IntoIterator<Item = K>>(iter: T) -> Self {
        let mut s = Set::new();
        s.extend(iter);
        s
    }
}
