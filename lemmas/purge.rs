// C08 lemma layer. A tombstone (k, d) is purged exactly when d is before the cut-off L of its
// origin (Kani: os_purge_all); the cut-off never moves backwards (os_cutoff_monotone); refused
// operations change nothing and will_apply predicts the refusal (os_insert_contract, os_delete_contract,
// os_will_apply).

/// Deletes stay deleted: after purging (k, d), every operation from the deleting node that is not
/// newer than d is before the cut-off -- now and after any later growth of the cut-off -- hence
/// refused by will_apply / insert / delete.
pub proof fn lemma_purged_refused(d: u64, l: u64, l_later: u64, t: u64)
    requires d < l, t <= d, l <= l_later,
    ensures
        sk_before(Some(l_later), t),
        !sk_will_apply(Slot::Empty, Some(l_later), t),
        !sk_will_apply(Slot::Dead(d), Some(l), t),
{
}

/// Purging is invisible: for ANY later operation at stamp t, the accept/refuse decision and the
/// resulting slot's live part are the same with the purged tombstone (Dead(d)) and without it (Empty).
pub open spec fn step_ins(s: Slot, l: Option<u64>, t: u64) -> Slot {
    if sk_before(l, t) { s } else { sk_insert(s, t) }
}
pub open spec fn step_del(s: Slot, l: Option<u64>, t: u64) -> Slot {
    if sk_before(l, t) { s } else { sk_delete(s, t) }
}
pub open spec fn live_part(s: Slot) -> Option<u64> {
    match s { Slot::Live(t) => Some(t), _ => None }
}
/// tombstones older than the cut-off carry no information: forget them
pub open spec fn forget_old(s: Slot, l: u64) -> Slot {
    match s { Slot::Dead(x) => if x < l { Slot::Empty } else { s }, _ => s }
}

pub proof fn lemma_purge_invisible(d: u64, l: u64, t: u64)
    requires d < l,
    ensures
        live_part(step_ins(Slot::Dead(d), Some(l), t)) == live_part(step_ins(Slot::Empty, Some(l), t)),
        live_part(step_del(Slot::Dead(d), Some(l), t)) == live_part(step_del(Slot::Empty, Some(l), t)),
        sk_will_apply(Slot::Dead(d), Some(l), t) == sk_will_apply(Slot::Empty, Some(l), t),
        // and the two runs stay related: equal once tombstones older than the cut-off are forgotten
        forget_old(step_ins(Slot::Dead(d), Some(l), t), l) == forget_old(step_ins(Slot::Empty, Some(l), t), l),
        forget_old(step_del(Slot::Dead(d), Some(l), t), l) == forget_old(step_del(Slot::Empty, Some(l), t), l),
{
}

/// The relation "equal up to tombstones older than the cut-off" is preserved by every later
/// operation (with a cut-off that only grows), so a replica that purges and one that never purges
/// expose the same live part after any common sequence of operations.
pub proof fn lemma_purge_simulation_step(a: Slot, b: Slot, l: u64, l2: u64, t: u64, is_insert: bool)
    requires
        forget_old(a, l) == forget_old(b, l),
        live_part(a) == live_part(b),
        l <= l2,
    ensures
        ({
            let a2 = if is_insert { step_ins(a, Some(l2), t) } else { step_del(a, Some(l2), t) };
            let b2 = if is_insert { step_ins(b, Some(l2), t) } else { step_del(b, Some(l2), t) };
            forget_old(a2, l2) == forget_old(b2, l2) && live_part(a2) == live_part(b2)
        }),
{
}
