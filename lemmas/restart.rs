// C07 lemma layer. By the Kani contract gr_load_all the restart replay feeds every stored metadata
// row (id, stamp, tombstone flag) exactly once, in timestamp order, through source 0 into a fresh set.
// By the ORSWOT contracts an accepted insert/delete acts as sk_insert/sk_delete and an operation is
// refused only when before the cut-off. These lemmas show (1) through source 0 alone nothing is ever
// before the cut-off, (2) replaying rows with pairwise distinct ids therefore leaves exactly the rows.

pub struct Row { pub key: u64, pub t: u64, pub tomb: bool }

pub open spec fn row_slot(r: Row) -> Slot { if r.tomb { Slot::Dead(r.t) } else { Slot::Live(r.t) } }
pub open spec fn get(m: Map<u64, Slot>, k: u64) -> Slot { if m.dom().contains(k) { m[k] } else { Slot::Empty } }
pub open spec fn apply_row(m: Map<u64, Slot>, r: Row) -> Map<u64, Slot> {
    m.insert(r.key, if r.tomb { sk_delete(get(m, r.key), r.t) } else { sk_insert(get(m, r.key), r.t) })
}
pub open spec fn replay(m: Map<u64, Slot>, rows: Seq<Row>) -> Map<u64, Slot>
    decreases rows.len()
{
    if rows.len() == 0 { m } else { replay(apply_row(m, rows[0]), rows.drop_first()) }
}
pub open spec fn distinct_ids(rows: Seq<Row>) -> bool {
    forall|i: int, j: int| 0 <= i < j < rows.len() ==> rows[i].key != rows[j].key
}

pub open spec fn has_key(rows: Seq<Row>, k: u64) -> bool {
    exists|i: int| 0 <= i < rows.len() && #[trigger] rows[i].key == k
}

/// (1) With only source 0 ever used, the cut-off of an origin is cut(zero stamp of that origin), and no
/// stamp of that origin is before it: the replay never has an operation refused.
pub proof fn lemma_source0_only_never_before(m0: Option<u64>, node: u8, t: u64)
    requires
        (t & 0xFF) == node as u64,
        m0.is_some() ==> (m0.unwrap() & 0xFF) == node as u64,
    ensures !sk_before(Some(sk_safe(m0, None, node)), t),
{
    let n = node as u64;
    assert(n < 256);
    assert((t & 0xFF) == n ==> t >= n) by (bit_vector);
    if m0.is_some() {
        let x = m0.unwrap();
        assert((x & 0xFF) == n ==> x >= n) by (bit_vector);
    }
    assert(n < 256 ==> (n >> 32) < 3600 && (n & 0xFF_FFFF) == n) by (bit_vector);
    // min(or_zero(m0), zero) == zero, cut(zero) == zero
    assert(sk_safe(m0, None, node) == n);
}

/// rows whose ids are not yet in the map land exactly, and nothing else changes
proof fn lemma_replay_frame(m: Map<u64, Slot>, rows: Seq<Row>)
    requires
        distinct_ids(rows),
        forall|i: int| 0 <= i < rows.len() ==> !m.dom().contains(#[trigger] rows[i].key),
    ensures
        forall|i: int| 0 <= i < rows.len() ==> get(replay(m, rows), #[trigger] rows[i].key) == row_slot(rows[i]),
        forall|k: u64| !has_key(rows, k) ==> get(replay(m, rows), k) == get(m, k),
    decreases rows.len()
{
    if rows.len() > 0 {
        let r = rows[0];
        let m1 = apply_row(m, r);
        let rest = rows.drop_first();
        assert(get(m, r.key) == Slot::Empty);
        assert(get(m1, r.key) == row_slot(r));
        assert forall|i: int, j: int| 0 <= i < j < rest.len() implies rest[i].key != rest[j].key by {
            assert(rest[i] == rows[i + 1]); assert(rest[j] == rows[j + 1]);
        }
        assert forall|i: int| 0 <= i < rest.len() implies !m1.dom().contains(#[trigger] rest[i].key) by {
            assert(rest[i] == rows[i + 1]);
            assert(rows[0].key != rows[i + 1].key);
        }
        lemma_replay_frame(m1, rest);
        assert forall|i: int| 0 <= i < rows.len() implies get(replay(m, rows), #[trigger] rows[i].key) == row_slot(rows[i]) by {
            if i == 0 {
                if has_key(rest, r.key) {
                    let j = choose|j: int| 0 <= j < rest.len() && #[trigger] rest[j].key == r.key;
                    assert(rest[j] == rows[j + 1]);
                    assert(false);
                }
                assert(get(replay(m1, rest), r.key) == get(m1, r.key));
            } else {
                assert(rest[i - 1] == rows[i]);
            }
        }
        assert forall|k: u64| !has_key(rows, k) implies get(replay(m, rows), k) == get(m, k) by {
            if has_key(rest, k) {
                let j = choose|j: int| 0 <= j < rest.len() && #[trigger] rest[j].key == k;
                assert(rest[j] == rows[j + 1]);
                assert(has_key(rows, k));
            }
            if rows[0].key == k {
                assert(has_key(rows, k));
            }
        }
    }
}

/// (2) MAIN: the set rebuilt from storage holds exactly the stored rows -- every id with its stamp and
/// kind, nothing else -- for any number of rows in any order.
pub proof fn lemma_rebuild_is_storage(rows: Seq<Row>)
    requires distinct_ids(rows),
    ensures
        forall|i: int| 0 <= i < rows.len() ==> get(replay(Map::empty(), rows), #[trigger] rows[i].key) == row_slot(rows[i]),
        forall|k: u64| !has_key(rows, k) ==> get(replay(Map::empty(), rows), k) == Slot::Empty,
{
    lemma_replay_frame(Map::empty(), rows);
}
