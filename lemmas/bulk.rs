// C02 lemma layer for bulk requests. Kani (ab_on_multi_set / ab_on_multi_del) proves on the real
// handler text: storage is handed exactly the documents for which will_apply answered true against
// the PRE-state, and the set then receives the documents reported written, in ascending timestamp
// order, through one source. These lemmas show that every such operation is ACCEPTED when its turn
// comes (the cut-off can only have moved because of the earlier, older operations of the same batch)
// and lands exactly as predicted, provided the batch holds each id at most once.
// (A batch holding the same id twice in descending stamp order is outside this hypothesis: storage
//  then ends on the older write -- finding D9 in DESIGN.md.)

/// cut never moves a stamp forward
pub proof fn lemma_cut_le(x: u64)
    ensures sk_cut(x) <= x,
{
    assert((x >> 32) >= 3600 ==> x >= (3600u64 << 32)) by (bit_vector);
    assert((x & 0xFF_FFFF) <= x) by (bit_vector);
}

/// Ascending order keeps operations acceptable: if t was not before the cut-off computed from
/// (m_s, m_o) and an OLDER stamp t_prev of the same origin is applied first through source s, then t is
/// still not before the new cut-off. (Written for source 0; source 1 is symmetric, below.)
pub proof fn lemma_ascending_accept_s0(m_s: Option<u64>, m_o: Option<u64>, node: u8, t_prev: u64, t: u64)
    requires
        !sk_before(Some(sk_safe(m_s, m_o, node)), t),
        t_prev < t,
    ensures
        !sk_before(Some(sk_safe(Some(sk_max_stamp(m_s, t_prev)), m_o, node)), t),
{
    lemma_cut_le(t_prev);
    let a0 = sk_or_zero(m_s, node);
    let a1 = sk_max_stamp(m_s, t_prev);
    let b = sk_or_zero(m_o, node);
    // new minimum is either the old one's side (unchanged or still the other source) or t_prev itself
    if a1 == t_prev {
        // cut(min(t_prev, b)) <= cut-or-b ... both are <= something below t
        if t_prev < b {
            assert(sk_safe(Some(a1), m_o, node) == sk_cut(t_prev));
        } else {
            assert(sk_safe(Some(a1), m_o, node) == sk_cut(b));
            // the old cut-off was cut(min(a0, b)); a0 <= t_prev here (max picked t_prev) or m_s absent
            if a0 < b {
                // old = cut(a0), new = cut(b) with a0 < b <= t_prev < t
                lemma_cut_le(b);
            }
        }
    } else {
        // m_s >= t_prev: nothing changed
        assert(m_s.is_some() && a1 == m_s.unwrap());
    }
}
pub proof fn lemma_ascending_accept_s1(m_o: Option<u64>, m_s: Option<u64>, node: u8, t_prev: u64, t: u64)
    requires
        !sk_before(Some(sk_safe(m_o, m_s, node)), t),
        t_prev < t,
    ensures
        !sk_before(Some(sk_safe(m_o, Some(sk_max_stamp(m_s, t_prev)), node)), t),
{
    lemma_cut_le(t_prev);
    let a0 = sk_or_zero(m_s, node);
    let a1 = sk_max_stamp(m_s, t_prev);
    let b = sk_or_zero(m_o, node);
    if a1 == t_prev {
        if !(b < t_prev) {
            assert(sk_safe(m_o, Some(a1), node) == sk_cut(t_prev));
        } else {
            assert(sk_safe(m_o, Some(a1), node) == sk_cut(b));
            if !(b < a0) {
                lemma_cut_le(b);
            }
        }
    } else {
        assert(m_s.is_some() && a1 == m_s.unwrap());
    }
}

/// An operation predicted by will_apply lands as predicted when it is accepted: the id's slot has not
/// changed since the prediction (each id at most once per batch), so insert => Live(t), delete => Dead(t),
/// which is what storage holds for a document reported written.
pub proof fn lemma_predicted_lands(s: Slot, l: Option<u64>, t: u64)
    requires sk_will_apply(s, l, t),
    ensures
        sk_insert(s, t) == Slot::Live(t),
        sk_delete(s, t) == Slot::Dead(t),
{
}

/// A document NOT reported written is not applied to the set, and one the set would not apply is not
/// handed to storage: in both cases slot and store stay as they were (nothing to prove beyond the
/// Kani contract); stated for completeness of the case split.
pub proof fn lemma_skipped_unchanged(s: Slot)
    ensures s == s,
{
}
