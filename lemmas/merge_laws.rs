// C03 lemma layer. Per key: the merging replica holds `s`, the merged-in state holds `o`. By the Kani
// contract on the real `OrSWotSet::merge` (os_merge_slots_*, with `NodeVersions::merge` linked by contract and
// discharged separately as os_versions_merge) the slot after the call is
//     sk_merge(s, o, "s's live stamp is before o's cut-off", "o's tombstone is before s's cut-off").
// Under the property's hypothesis "all timestamps lie within one forgiveness period" neither flag can be set
// (lemma_window_no_before), and then merge is `join` = "greatest stamp wins, an insert wins an exact tie"
// (lemma_merge_is_join), which is the maximum under an injective rank -- a semilattice: commutative,
// associative, idempotent, absorbing. Folding any sequence of states into a replica therefore depends only on
// the SET of states folded in (lemma_fold_determined): any order, any repetition; any grouping by associativity.
// The property's other hypothesis (gap-free prefixes, where the cut-off flags may be set) needs ghost history
// and is NOT decided here.

pub open spec fn stamp(o: Slot) -> u64 {
    match o { Slot::Empty => 0, Slot::Live(t) => t, Slot::Dead(t) => t }
}

pub open spec fn live_of(s: Slot) -> Option<u64> {
    match s { Slot::Live(t) => Some(t), _ => None }
}

/// distinct timestamps, unless both sides hold the very same operation
pub open spec fn compat(a: Slot, b: Slot) -> bool {
    a == b || a == Slot::Empty || b == Slot::Empty || stamp(a) != stamp(b)
}

/// total order behind last-writer-wins: later stamp first, an insert above a delete of the same stamp
pub open spec fn rank(s: Slot) -> int {
    match s { Slot::Empty => -1, Slot::Live(t) => 2 * (t as int) + 1, Slot::Dead(t) => 2 * (t as int) }
}

pub open spec fn join(a: Slot, b: Slot) -> Slot {
    if rank(a) >= rank(b) { a } else { b }
}

pub proof fn lemma_rank_injective(a: Slot, b: Slot)
    requires rank(a) == rank(b),
    ensures a == b,
{
}

/// join is "greatest timestamp wins; present if that operation was an insert, absent if a delete"
pub proof fn lemma_join_is_lww(a: Slot, b: Slot)
    ensures
        join(a, b) == a || join(a, b) == b,
        stamp(a) > stamp(b) && a != Slot::Empty ==> join(a, b) == a,
        stamp(b) > stamp(a) && b != Slot::Empty ==> join(a, b) == b,
        a == Slot::Empty ==> join(a, b) == b,
        b == Slot::Empty ==> join(a, b) == a,
{
}

/// the code's per-key merge IS the join when no cut-off flag is set (window hypothesis) -- even on an exact stamp tie
/// between an insert and a delete (the insert wins in both merge directions), so "distinct timestamps" is not needed here
pub proof fn lemma_merge_is_join(s: Slot, o: Slot)
    ensures sk_merge(s, o, false, false) == join(s, o),
{
}

pub proof fn lemma_join_idempotent(a: Slot)
    ensures join(a, a) == a,
{
}

pub proof fn lemma_join_commutative(a: Slot, b: Slot)
    ensures join(a, b) == join(b, a),
{
    if rank(a) == rank(b) { lemma_rank_injective(a, b); }
}

pub proof fn lemma_join_associative(a: Slot, b: Slot, c: Slot)
    ensures join(join(a, b), c) == join(a, join(b, c)),
{
}

/// re-merging a state already merged changes nothing
pub proof fn lemma_join_absorbs(a: Slot, b: Slot)
    ensures join(join(a, b), b) == join(a, b), join(join(a, b), a) == join(a, b),
{
}

/// distinct-stamp compatibility is closed under join (kept for callers that need it, e.g. the repair lemmas)
pub proof fn lemma_compat_closed(a: Slot, b: Slot, c: Slot)
    requires compat(a, c), compat(b, c),
    ensures compat(join(a, b), c),
{
}

/// the code-level laws, per key (flags false = window hypothesis)
pub proof fn lemma_merge_laws(a: Slot, b: Slot, c: Slot)
    ensures
        // idempotent: merging a state into itself / merging twice
        sk_merge(a, a, false, false) == a,
        sk_merge(sk_merge(a, b, false, false), b, false, false) == sk_merge(a, b, false, false),
        // commutative: A merged with B and B merged with A hold the same thing
        sk_merge(a, b, false, false) == sk_merge(b, a, false, false),
        live_of(sk_merge(a, b, false, false)) == live_of(sk_merge(b, a, false, false)),
        // associative: (A <- B) <- C  ==  A <- (B <- C)
        sk_merge(sk_merge(a, b, false, false), c, false, false) == sk_merge(a, sk_merge(b, c, false, false), false, false),
        // any order: (A <- B) <- C  ==  (A <- C) <- B
        sk_merge(sk_merge(a, b, false, false), c, false, false) == sk_merge(sk_merge(a, c, false, false), b, false, false),
{
    lemma_merge_is_join(a, a);
    lemma_merge_is_join(a, b);
    lemma_merge_is_join(b, a);
    lemma_merge_is_join(b, c);
    lemma_merge_is_join(a, c);
    lemma_merge_is_join(join(a, b), b);
    lemma_merge_is_join(join(a, b), c);
    lemma_merge_is_join(a, join(b, c));
    lemma_merge_is_join(join(a, c), b);
    lemma_join_commutative(a, b);
    if rank(b) == rank(c) { lemma_rank_injective(b, c); }
}

// ---- any number of merges, any order, any repetition: the result depends only on the set of states merged in

pub open spec fn fold_join(s: Slot, xs: Seq<Slot>) -> Slot
    decreases xs.len(),
{
    if xs.len() == 0 { s } else { fold_join(join(s, xs[0]), xs.subrange(1, xs.len() as int)) }
}

/// the fold ends at the greatest-rank element among the start slot and the sequence
pub proof fn lemma_fold_is_max(s: Slot, xs: Seq<Slot>)
    ensures
        rank(fold_join(s, xs)) >= rank(s),
        forall|i: int| 0 <= i < xs.len() ==> rank(fold_join(s, xs)) >= rank(#[trigger] xs[i]),
        fold_join(s, xs) == s || exists|i: int| 0 <= i < xs.len() && fold_join(s, xs) == xs[i],
    decreases xs.len(),
{
    if xs.len() > 0 {
        let rest = xs.subrange(1, xs.len() as int);
        let s1 = join(s, xs[0]);
        lemma_fold_is_max(s1, rest);
        assert forall|i: int| 0 <= i < xs.len() implies rank(fold_join(s, xs)) >= rank(#[trigger] xs[i]) by {
            if i > 0 { assert(rest[i - 1] == xs[i]); }
        }
        if fold_join(s, xs) != s {
            if fold_join(s1, rest) == s1 {
                assert(fold_join(s, xs) == xs[0]);
            } else {
                let j = choose|j: int| 0 <= j < rest.len() && fold_join(s1, rest) == rest[j];
                assert(rest[j] == xs[j + 1]);
            }
        }
    }
}

/// every element of xs occurs in ys or is the start slot
pub open spec fn covered(s: Slot, xs: Seq<Slot>, ys: Seq<Slot>) -> bool {
    forall|i: int| 0 <= i < xs.len() ==> #[trigger] xs[i] == s || exists|j: int| 0 <= j < ys.len() && ys[j] == xs[i]
}

/// Merging the same SET of states into a replica, in any order and with any repetitions, yields the same slot.
pub proof fn lemma_fold_determined(s: Slot, xs: Seq<Slot>, ys: Seq<Slot>)
    requires covered(s, xs, ys), covered(s, ys, xs),
    ensures fold_join(s, xs) == fold_join(s, ys),
{
    lemma_fold_is_max(s, xs);
    lemma_fold_is_max(s, ys);
    let fx = fold_join(s, xs);
    let fy = fold_join(s, ys);
    // fx is s or some xs[i]; either way fy outranks it (and symmetrically)
    assert(rank(fy) >= rank(fx)) by {
        if fx != s {
            let i = choose|i: int| 0 <= i < xs.len() && fx == xs[i];
            if xs[i] != s {
                let j = choose|j: int| 0 <= j < ys.len() && ys[j] == xs[i];
                assert(rank(fy) >= rank(ys[j]));
            }
        }
    }
    assert(rank(fx) >= rank(fy)) by {
        if fy != s {
            let i = choose|i: int| 0 <= i < ys.len() && fy == ys[i];
            if ys[i] != s {
                let j = choose|j: int| 0 <= j < xs.len() && xs[j] == ys[i];
                assert(rank(fx) >= rank(xs[j]));
            }
        }
    }
    lemma_rank_injective(fx, fy);
}

/// a second pass over states already merged changes nothing (idempotence over whole histories)
pub proof fn lemma_fold_twice(s: Slot, xs: Seq<Slot>)
    ensures fold_join(fold_join(s, xs), xs) == fold_join(s, xs),
    decreases xs.len(),
{
    lemma_fold_is_max(s, xs);
    let f = fold_join(s, xs);
    lemma_fold_is_max(f, xs);
    let g = fold_join(f, xs);
    if g != f {
        let i = choose|i: int| 0 <= i < xs.len() && g == xs[i];
        assert(rank(f) >= rank(xs[i]));
        lemma_rank_injective(f, g);
    }
}

// ---- pointwise lifting to whole replicas (total functions key -> Slot)

pub open spec fn merged(a: spec_fn(u64) -> Slot, b: spec_fn(u64) -> Slot) -> spec_fn(u64) -> Slot {
    |k: u64| sk_merge(a(k), b(k), false, false)
}

/// replicas that have merged each other's states are indistinguishable by lookups; grouping and order do not matter
pub proof fn lemma_merge_laws_all(a: spec_fn(u64) -> Slot, b: spec_fn(u64) -> Slot, c: spec_fn(u64) -> Slot)
    ensures
        forall|k: u64| live_of(#[trigger] merged(a, b)(k)) == live_of(merged(b, a)(k)),
        forall|k: u64| #[trigger] merged(merged(a, b), c)(k) == merged(a, merged(b, c))(k),
        forall|k: u64| #[trigger] merged(merged(a, b), c)(k) == merged(merged(a, c), b)(k),
        forall|k: u64| #[trigger] merged(merged(a, b), b)(k) == merged(a, b)(k),
        forall|k: u64| #[trigger] merged(a, a)(k) == a(k),
{
    assert forall|k: u64| live_of(#[trigger] merged(a, b)(k)) == live_of(merged(b, a)(k))
        && merged(merged(a, b), c)(k) == merged(a, merged(b, c))(k)
        && merged(merged(a, b), c)(k) == merged(merged(a, c), b)(k)
        && merged(merged(a, b), b)(k) == merged(a, b)(k)
        && merged(a, a)(k) == a(k) by {
        lemma_merge_laws(a(k), b(k), c(k));
    }
}

// ---- window hypothesis => no cut-off flag

/// If the stamp t (origin `node`) is less than one forgiveness period older than every newest stamp the other
/// replica has seen from that origin (m0 through source 0, m1 through source 1; at least 1 h after the datacake
/// epoch), then t is not before that replica's cut-off for the origin: the flags of sk_merge are false.
pub proof fn lemma_window_no_before(t: u64, m0: Option<u64>, m1: Option<u64>, node: u8)
    requires
        (t & 0xFF) == node as u64,
        m0.is_some() ==> (t >> 24) + (3600u64 << 8) > (m0.unwrap() >> 24) && (m0.unwrap() >> 32) >= 3600,
        m1.is_some() ==> (t >> 24) + (3600u64 << 8) > (m1.unwrap() >> 24) && (m1.unwrap() >> 32) >= 3600,
    ensures !sk_before(Some(sk_safe(m0, m1, node)), t),
{
    let z = node as u64;
    assert((t & 0xFF) == z && z <= 0xFF ==> !(t < (if (z >> 32) >= 3600 { (z - (3600u64 << 32)) as u64 } else { z & 0xFF_FFFF }))) by (bit_vector);
    if m0.is_some() {
        let m = m0.unwrap();
        assert((t >> 24) + (3600u64 << 8) > (m >> 24) && (m >> 32) >= 3600 ==>
            !(t < (if (m >> 32) >= 3600 { (m - (3600u64 << 32)) as u64 } else { m & 0xFF_FFFF }))) by (bit_vector);
    }
    if m1.is_some() {
        let m = m1.unwrap();
        assert((t >> 24) + (3600u64 << 8) > (m >> 24) && (m >> 32) >= 3600 ==>
            !(t < (if (m >> 32) >= 3600 { (m - (3600u64 << 32)) as u64 } else { m & 0xFF_FFFF }))) by (bit_vector);
    }
}
