// C16 lemma layer (unbounded): membership as a map id -> address. By the Kani contract mb_delta_step
// the event for a transition a -> b carries left = members of a whose (id, addr) is not in b (as they
// were in a) and joined = members of b whose (id, addr) is not in a; consumers remove `left` ids and
// then insert `joined`. These lemmas do not depend on the kernels.

pub open spec fn same_at(a: Map<int, int>, b: Map<int, int>, k: int) -> bool {
    a.dom().contains(k) && b.dom().contains(k) && a[k] == b[k]
}
pub open spec fn left_ids(a: Map<int, int>, b: Map<int, int>) -> Set<int> {
    a.dom().filter(|k: int| !same_at(a, b, k))
}
pub open spec fn joined(a: Map<int, int>, b: Map<int, int>) -> Map<int, int> {
    b.restrict(b.dom().filter(|k: int| !same_at(a, b, k)))
}
/// what a consumer holding `cur` holds after one event
pub open spec fn apply_event(cur: Map<int, int>, left: Set<int>, j: Map<int, int>) -> Map<int, int> {
    cur.remove_keys(left).union_prefer_right(j)
}

/// one event turns the previous membership into the current one, whatever they are
pub proof fn lemma_apply_delta(a: Map<int, int>, b: Map<int, int>)
    ensures apply_event(a, left_ids(a, b), joined(a, b)) =~= b,
{
    let r = apply_event(a, left_ids(a, b), joined(a, b));
    assert forall|k: int| r.dom().contains(k) == b.dom().contains(k) by {}
    assert forall|k: int| r.dom().contains(k) implies r[k] == b[k] by {}
}

/// a consumer that applies every event in order holds the last snapshot (induction over the history)
pub open spec fn fold_events(start: Map<int, int>, snaps: Seq<Map<int, int>>) -> Map<int, int>
    decreases snaps.len()
{
    if snaps.len() == 0 { start } else {
        fold_events(apply_event(start, left_ids(start, snaps[0]), joined(start, snaps[0])), snaps.drop_first())
    }
}
pub proof fn lemma_fold_is_last(start: Map<int, int>, snaps: Seq<Map<int, int>>)
    requires snaps.len() > 0,
    ensures fold_events(start, snaps) =~= snaps.last(),
    decreases snaps.len()
{
    lemma_apply_delta(start, snaps[0]);
    let next = apply_event(start, left_ids(start, snaps[0]), joined(start, snaps[0]));
    assert(next =~= snaps[0]);
    if snaps.len() == 1 {
        assert(snaps.drop_first().len() == 0);
        assert(fold_events(next, snaps.drop_first()) == next);
    } else {
        let rest = snaps.drop_first();
        assert(rest.last() == snaps.last());
        lemma_fold_is_last(next, rest);
        // fold from `next` and from snaps[0] agree because next == snaps[0] extensionally
        assert(next == snaps[0]);
    }
}

/// the same holds for a subscriber that only sees a SUBSEQUENCE of the snapshots, provided each
/// event it gets is the delta between the snapshots IT saw last and now (per-subscriber deltas):
/// the lemma above applied to the subsequence. With one shared stream of deltas on a latest-value
/// channel this hypothesis is false for a late or slow subscriber (known finding D6).
pub proof fn lemma_skipping_subscriber(seen: Seq<Map<int, int>>)
    requires seen.len() > 0,
    ensures fold_events(Map::empty(), seen) =~= seen.last(),
{
    lemma_fold_is_last(Map::empty(), seen);
}
