// Spec kernels: the mathematical functions the exec kernels (and, through the Kani
// contracts, the real code) are proved equal to.

pub open spec fn sk_insert(s: Slot, t: u64) -> Slot {
    match s {
        Slot::Empty => Slot::Live(t),
        Slot::Live(e) => if e < t { Slot::Live(t) } else { s },
        Slot::Dead(d) => if t < d { s } else { Slot::Live(t) },
    }
}

pub open spec fn sk_delete(s: Slot, t: u64) -> Slot {
    match s {
        Slot::Empty => Slot::Dead(t),
        Slot::Live(e) => if t <= e { s } else { Slot::Dead(t) },
        Slot::Dead(d) => if d < t { Slot::Dead(t) } else { s },
    }
}

pub open spec fn sk_cut(t: u64) -> u64 {
    if (t >> 32) >= 3600 { (t - FORGIVE) as u64 } else { t & 0xFF_FFFF }
}

pub open spec fn sk_before(l: Option<u64>, t: u64) -> bool {
    match l {
        Some(c) => t < c,
        None => false,
    }
}

pub open spec fn sk_will_apply(s: Slot, l: Option<u64>, t: u64) -> bool {
    !sk_before(l, t) && match s {
        Slot::Empty => true,
        Slot::Live(e) => e < t,
        Slot::Dead(d) => d < t,
    }
}

pub open spec fn sk_lacks(s: Slot, l: Option<u64>, t: u64) -> bool {
    match s {
        Slot::Live(e) => e < t,
        Slot::Dead(d) => d < t,
        Slot::Empty => !sk_before(l, t),
    }
}

pub open spec fn sk_max_stamp(m: Option<u64>, t: u64) -> u64 {
    match m {
        Some(x) => if x < t { t } else { x },
        None => t,
    }
}

pub open spec fn sk_or_zero(m: Option<u64>, node: u8) -> u64 {
    match m {
        Some(x) => x,
        None => node as u64,
    }
}

pub open spec fn sk_safe(m0: Option<u64>, m1: Option<u64>, node: u8) -> u64 {
    if sk_or_zero(m0, node) < sk_or_zero(m1, node) { sk_cut(sk_or_zero(m0, node)) } else { sk_cut(sk_or_zero(m1, node)) }
}

/// stamp held by a slot, -1 for the empty slot
pub open spec fn ts_of(s: Slot) -> int {
    match s {
        Slot::Empty => -1,
        Slot::Live(t) => t as int,
        Slot::Dead(t) => t as int,
    }
}

pub open spec fn sk_merge(s: Slot, o: Slot, s_before_lo: bool, o_before_ls: bool) -> Slot {
    match o {
        Slot::Live(t) => match s {
            Slot::Empty => Slot::Live(t),
            Slot::Live(e) => if e < t { Slot::Live(t) } else { Slot::Live(e) },
            Slot::Dead(d) => if t < d { Slot::Dead(d) } else { Slot::Live(t) },
        },
        Slot::Dead(t) => if o_before_ls {
            match s {
                Slot::Live(e) => if s_before_lo { Slot::Empty } else { Slot::Live(e) },
                _ => s,
            }
        } else {
            match s {
                Slot::Empty => Slot::Dead(t),
                Slot::Dead(d) => if d < t { Slot::Dead(t) } else { Slot::Dead(d) },
                Slot::Live(e) => if s_before_lo { Slot::Dead(t) } else if e < t { Slot::Dead(t) } else { Slot::Live(e) },
            }
        },
        Slot::Empty => match s {
            Slot::Live(e) => if s_before_lo { Slot::Empty } else { Slot::Live(e) },
            _ => s,
        },
    }
}
