// C05 lemma layer. Per key: the replica holds `s`, the peer holds `o`. By the Kani contracts on
// the real code, diff lists the peer's item for the key iff sk_lacks (os_lacks / os_diff_list), and an
// accepted insert / delete acts as sk_insert / sk_delete (os_insert_contract / os_delete_contract).
// Hypothesis `accepted`: the listed item is not before the replica's cut-off when it is applied --
// this is what "all timestamps within one forgiveness period" gives (lemma_window_accepts), whatever
// the order of the removal and modification batches (the cut-off only moves within the window).

pub open spec fn stamp(o: Slot) -> u64 {
    match o { Slot::Empty => 0, Slot::Live(t) => t, Slot::Dead(t) => t }
}

/// the peer's item for this key is listed by diff(S, O)
pub open spec fn listed(s: Slot, l: Option<u64>, o: Slot) -> bool {
    match o {
        Slot::Empty => false,
        Slot::Live(t) => sk_lacks(s, l, t),
        Slot::Dead(t) => sk_lacks(s, l, t),
    }
}

/// applying the listed item (modification => insert, removal => delete), accepted
pub open spec fn repaired(s: Slot, l: Option<u64>, o: Slot) -> Slot {
    if !listed(s, l, o) { s } else {
        match o {
            Slot::Empty => s,
            Slot::Live(t) => sk_insert(s, t),
            Slot::Dead(t) => sk_delete(s, t),
        }
    }
}

/// greatest stamp wins; an insert wins an exact tie
pub open spec fn join(a: Slot, b: Slot) -> Slot {
    match (a, b) {
        (Slot::Empty, _) => b,
        (_, Slot::Empty) => a,
        _ => if stamp(a) > stamp(b) { a } else if stamp(b) > stamp(a) { b } else {
            match a { Slot::Live(_) => a, _ => b }
        },
    }
}

pub open spec fn live_of(s: Slot) -> Option<u64> {
    match s { Slot::Live(t) => Some(t), _ => None }
}

/// The difference carries the peer's timestamp and is a modification iff the peer has the key live:
/// (definitional in `listed`/`repaired`; stated for the record)
pub proof fn lemma_item_kind(s: Slot, l: Option<u64>, t: u64)
    ensures
        listed(s, l, Slot::Live(t)) == sk_lacks(s, l, t),
        listed(s, l, Slot::Dead(t)) == sk_lacks(s, l, t),
        !listed(s, l, Slot::Empty),
{
}

/// After applying the difference there is nothing further to fetch for this key, whatever the
/// cut-off has become in the meantime (l2 arbitrary).
pub proof fn lemma_second_diff_empty(s: Slot, l: Option<u64>, o: Slot, l2: Option<u64>)
    requires !sk_before(l, stamp(o)),   // accepted (window hypothesis)
    ensures !listed(repaired(s, l, o), l2, o),
{
}

/// One exchange yields the join: repaired(s, o) == join(s, o) when stamps are distinct
/// (or the two sides hold the same thing).
pub proof fn lemma_repair_is_join(s: Slot, l: Option<u64>, o: Slot)
    requires
        !sk_before(l, stamp(o)),
        s == o || s == Slot::Empty || o == Slot::Empty || stamp(s) != stamp(o),
    ensures repaired(s, l, o) == join(s, o),
{
}

/// Two replicas that each apply their difference against the other expose identical live ids
/// and timestamps (per key; lifted pointwise below).
pub proof fn lemma_two_way_equal(a: Slot, la: Option<u64>, b: Slot, lb: Option<u64>)
    requires
        !sk_before(la, stamp(b)), !sk_before(lb, stamp(a)),
        a == b || a == Slot::Empty || b == Slot::Empty || stamp(a) != stamp(b),
    ensures
        repaired(a, la, b) == repaired(b, lb, a),
        live_of(repaired(a, la, b)) == live_of(repaired(b, lb, a)),
{
    lemma_repair_is_join(a, la, b);
    lemma_repair_is_join(b, lb, a);
}

/// Pointwise lifting to whole replicas (total functions key -> Slot, origin -> cut-off).
pub proof fn lemma_two_way_equal_all(a: spec_fn(u64) -> Slot, la: spec_fn(u8) -> Option<u64>,
                                     b: spec_fn(u64) -> Slot, lb: spec_fn(u8) -> Option<u64>)
    requires
        forall|k: u64| !sk_before(#[trigger] la((stamp(b(k)) & 0xFF) as u8), stamp(b(k))),
        forall|k: u64| !sk_before(#[trigger] lb((stamp(a(k)) & 0xFF) as u8), stamp(a(k))),
        forall|k: u64| #[trigger] a(k) == b(k) || a(k) == Slot::Empty || b(k) == Slot::Empty || stamp(a(k)) != stamp(b(k)),
    ensures
        forall|k: u64| live_of(repaired(#[trigger] a(k), la((stamp(b(k)) & 0xFF) as u8), b(k)))
            == live_of(repaired(b(k), lb((stamp(a(k)) & 0xFF) as u8), a(k))),
{
    assert forall|k: u64| live_of(repaired(#[trigger] a(k), la((stamp(b(k)) & 0xFF) as u8), b(k)))
            == live_of(repaired(b(k), lb((stamp(a(k)) & 0xFF) as u8), a(k))) by {
        lemma_two_way_equal(a(k), la((stamp(b(k)) & 0xFF) as u8), b(k), lb((stamp(a(k)) & 0xFF) as u8));
    }
}

/// Window hypothesis => acceptance: if every stamp the replica has seen from the origin (hence its
/// newest stamp m, hence the cut-off cut(min) <= cut(m)) is less than one forgiveness period newer than
/// t, then t is not before the cut-off. (Stamps at least 1 h after the datacake epoch.)
pub proof fn lemma_window_accepts(t: u64, m: u64)
    requires (t >> 24) + (3600u64 << 8) > (m >> 24), (m >> 32) >= 3600,
    ensures !sk_before(Some(sk_cut(m)), t),
{
    assert((t >> 24) + (3600u64 << 8) > (m >> 24) && (m >> 32) >= 3600 ==>
        !(t < (if (m >> 32) >= 3600 { (m - (3600u64 << 32)) as u64 } else { m & 0xFF_FFFF }))) by (bit_vector);
}
