// C04 lemma layer: whatever order accepted operations with distinct stamps arrive in, a key
// ends at the operation with the greatest stamp. Hypotheses are the per-call contracts Kani
// proves on the real code: an accepted insert/delete acts as sk_insert/sk_delete on the slot.

pub enum Op { Ins(u64), Del(u64) }

pub open spec fn op_ts(o: Op) -> u64 { match o { Op::Ins(t) => t, Op::Del(t) => t } }
pub open spec fn apply(s: Slot, o: Op) -> Slot { match o { Op::Ins(t) => sk_insert(s, t), Op::Del(t) => sk_delete(s, t) } }
pub open spec fn as_slot(o: Op) -> Slot { match o { Op::Ins(t) => Slot::Live(t), Op::Del(t) => Slot::Dead(t) } }

pub open spec fn fold(s: Slot, ops: Seq<Op>) -> Slot
    decreases ops.len()
{
    if ops.len() == 0 { s } else { fold(apply(s, ops[0]), ops.drop_first()) }
}

pub open spec fn distinct_ts(ops: Seq<Op>) -> bool {
    forall|i: int, j: int| 0 <= i < j < ops.len() ==> op_ts(ops[i]) != op_ts(ops[j])
}

pub open spec fn is_max(ops: Seq<Op>, m: int) -> bool {
    0 <= m < ops.len() && forall|i: int| 0 <= i < ops.len() ==> op_ts(ops[i]) <= op_ts(ops[m])
}

/// if every remaining op is strictly older than the slot, the slot does not change
proof fn lemma_fold_stays(s: Slot, ops: Seq<Op>)
    requires forall|i: int| 0 <= i < ops.len() ==> (op_ts(ops[i]) as int) < ts_of(s),
    ensures fold(s, ops) == s,
    decreases ops.len()
{
    if ops.len() > 0 {
        let rest = ops.drop_first();
        assert(apply(s, ops[0]) == s);
        assert forall|i: int| 0 <= i < rest.len() implies (op_ts(rest[i]) as int) < ts_of(s) by { assert(rest[i] == ops[i + 1]); }
        lemma_fold_stays(s, rest);
    }
}

/// MAIN: any arrival order ends at the greatest-stamp operation.
pub proof fn lemma_fold_lww(s: Slot, ops: Seq<Op>, m: int)
    requires
        distinct_ts(ops), is_max(ops, m),
        ts_of(s) < op_ts(ops[m]),
        forall|i: int| 0 <= i < ops.len() ==> op_ts(ops[i]) != ts_of(s),
    ensures fold(s, ops) == as_slot(ops[m]),
    decreases ops.len()
{
    let o = ops[0];
    let s1 = apply(s, o);
    let rest = ops.drop_first();
    if ops.len() == 1 {
        assert(m == 0);
        assert(fold(s1, rest) == s1);
    } else if m == 0 {
        assert(s1 == as_slot(o));
        assert forall|i: int| 0 <= i < rest.len() implies (op_ts(rest[i]) as int) < ts_of(s1) by { assert(rest[i] == ops[i + 1]); }
        lemma_fold_stays(s1, rest);
    } else {
        assert(rest[m - 1] == ops[m]);
        assert forall|i: int, j: int| 0 <= i < j < rest.len() implies op_ts(rest[i]) != op_ts(rest[j]) by {
            assert(rest[i] == ops[i + 1]); assert(rest[j] == ops[j + 1]);
        }
        assert forall|i: int| 0 <= i < rest.len() implies #[trigger] op_ts(rest[i]) <= op_ts(rest[m - 1]) by { assert(rest[i] == ops[i + 1]); }
        assert forall|i: int| 0 <= i < rest.len() implies op_ts(rest[i]) != ts_of(s1) by { assert(rest[i] == ops[i + 1]); }
        lemma_fold_lww(s1, rest, m - 1);
    }
}

/// Order independence: two arrival orders of the same operations (each the max at some index of
/// its own sequence, same stamp set) end in the same slot. Stated via the common maximum.
pub proof fn lemma_order_independent(a: Seq<Op>, b: Seq<Op>, ma: int, mb: int)
    requires
        distinct_ts(a), distinct_ts(b), is_max(a, ma), is_max(b, mb),
        a[ma] == b[mb],
    ensures fold(Slot::Empty, a) == fold(Slot::Empty, b),
{
    lemma_fold_lww(Slot::Empty, a, ma);
    lemma_fold_lww(Slot::Empty, b, mb);
}

/// Tie rule: an insert wins an exact tie against a delete, in either arrival order.
pub proof fn lemma_insert_wins_tie(t: u64)
    ensures
        sk_insert(Slot::Dead(t), t) == Slot::Live(t),
        sk_delete(Slot::Live(t), t) == Slot::Live(t),
{
}

/// The will-apply prediction is true exactly when the accepted operation changes the slot
/// (insert: provided t differs from a held tombstone's stamp -- distinct timestamps).
pub proof fn lemma_will_apply_is_change(s: Slot, l: Option<u64>, t: u64)
    requires !sk_before(l, t),
    ensures
        sk_will_apply(s, l, t) == (sk_delete(s, t) != s),
        s != Slot::Dead(t) ==> sk_will_apply(s, l, t) == (sk_insert(s, t) != s),
{
}

/// Acceptance: an operation strictly inside the forgiveness window relative to the newest stamp
/// `m` seen from its origin is not before cut(m) -- hence never refused by the cut-off rule.
/// Time lives in bits 63..24 (seconds, 4 ms fraction); the window is 3600 s = 3600<<8 ticks there.
/// (m at least one forgiveness period after the datacake epoch: below that `cut` saturates.)
pub proof fn lemma_inside_window_not_before(t: u64, m: u64)
    requires (t >> 24) + (3600u64 << 8) > (m >> 24), (m >> 32) >= 3600,
    ensures !(t < sk_cut(m)),
{
    assert((t >> 24) + (3600u64 << 8) > (m >> 24) && (m >> 32) >= 3600 ==>
        !(t < (if (m >> 32) >= 3600 { (m - (3600u64 << 32)) as u64 } else { m & 0xFF_FFFF }))) by (bit_vector);
}

/// cut is monotone for stamps at least one forgiveness period after the epoch (so the cut-off
/// of an origin only moves forward as newer stamps are seen).
pub proof fn lemma_cut_monotone(a: u64, b: u64)
    requires a <= b, (a >> 32) >= 3600,
    ensures sk_cut(a) <= sk_cut(b), sk_cut(a) <= a,
{
    assert(a <= b && (a >> 32) >= 3600 ==> (b >> 32) >= 3600 && a >= (3600u64 << 32) && b >= (3600u64 << 32)) by (bit_vector);
}
