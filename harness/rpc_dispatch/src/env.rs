//! Stand-ins for what try_handle_request uses.
use core::cell::{Cell, UnsafeCell};

pub type SocketAddr = u64;
pub const PATH_CAP: usize = 15;

/// opaque refusal text (see prelude: `format!`)
pub struct Msg;

/// http::Uri: owns its bytes; `path()` borrows them
pub struct Uri {
    pub buf: [u8; PATH_CAP],
    pub len: usize,
}
impl Uri {
    pub fn path(&self) -> &str {
        // the harness only stores ASCII
        unsafe { core::str::from_utf8_unchecked(&self.buf[..self.len]) }
    }
}
#[derive(Clone, Copy, PartialEq, Eq)]
pub struct HeaderMap(pub u64);
/// http::request::Parts (the two fields the function reads)
pub struct Parts {
    pub uri: Uri,
    pub headers: HeaderMap,
}
pub struct Request<B> {
    pub parts: Parts,
    pub body: B,
}
impl<B> Request<B> {
    pub fn into_parts(self) -> (Parts, B) {
        (self.parts, self.body)
    }
}
pub mod hyper {
    #[derive(Clone, Copy, PartialEq, Eq)]
    pub struct Body(pub u64);
}
/// crate::body::Body
#[derive(Clone, Copy, PartialEq, Eq)]
pub struct Body(pub hyper::Body);
impl Body {
    pub fn new(b: hyper::Body) -> Self {
        Body(b)
    }
}

#[derive(Clone, Copy, PartialEq, Eq)]
pub enum ErrorCode {
    ServiceUnavailable,
    Other(u8),
}
/// crate::Status: the code is kept, the text is opaque
#[derive(Clone, Copy, PartialEq, Eq)]
pub struct Status {
    pub code: ErrorCode,
}
impl Status {
    pub fn unavailable(_msg: Msg) -> Self {
        Status { code: ErrorCode::ServiceUnavailable }
    }
}

/// what the handler was called with
#[derive(Clone, Copy, PartialEq, Eq)]
pub struct HandlerCall {
    pub remote_addr: SocketAddr,
    pub headers: HeaderMap,
    pub body: Body,
}
pub trait OpaqueMessageHandler {
    fn try_handle(&self, remote_addr: SocketAddr, headers: HeaderMap, data: Body) -> Result<Body, Status>;
}
/// a handler that records its calls and answers what the harness chose
pub struct RecHandler {
    pub calls: Cell<usize>,
    pub last: Cell<Option<HandlerCall>>,
    pub answer: Result<Body, Status>,
}
impl OpaqueMessageHandler for RecHandler {
    fn try_handle(&self, remote_addr: SocketAddr, headers: HeaderMap, data: Body) -> Result<Body, Status> {
        self.calls.set(self.calls.get() + 1);
        self.last.set(Some(HandlerCall { remote_addr, headers, body: data }));
        self.answer
    }
}

/// leak-based shared pointer (as in unit rpc_registry)
pub struct Arc<T: ?Sized> {
    p: *const T,
}
impl<T: ?Sized> Arc<T> {
    pub fn from_ref(r: &T) -> Self {
        Arc { p: r as *const T }
    }
}
impl<T: ?Sized> Clone for Arc<T> {
    fn clone(&self) -> Self {
        Arc { p: self.p }
    }
}
impl<T: ?Sized> core::ops::Deref for Arc<T> {
    type Target = T;
    fn deref(&self) -> &T {
        unsafe { &*self.p }
    }
}

/// the registry, BY CONTRACT: `get_handler(uri)` is a lookup; here it records what it was asked and answers what the harness chose
pub struct ServerState {
    pub registered: Option<&'static RecHandler>,
    pub lookups: &'static Cell<usize>,
    pub asked: &'static Cell<[u8; PATH_CAP]>,
    pub asked_len: &'static Cell<usize>,
}
impl ServerState {
    pub fn get_handler(&self, uri: &str) -> Option<Arc<dyn OpaqueMessageHandler>> {
        self.lookups.set(self.lookups.get() + 1);
        let b = uri.as_bytes();
        let mut copy = [0u8; PATH_CAP];
        let mut i = 0;
        while i < PATH_CAP {
            if i < b.len() {
                copy[i] = b[i];
            }
            i += 1;
        }
        self.asked.set(copy);
        self.asked_len.set(uri.len());
        match self.registered {
            Some(h) => {
                let d: &dyn OpaqueMessageHandler = h;
                Some(Arc::from_ref(d))
            },
            None => None,
        }
    }
}
