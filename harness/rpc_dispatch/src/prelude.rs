// ---- prelude for net/server.rs slices ----------------------------------------------------------
// http::Request / hyper::Body / crate::body::Body / crate::Status / ServerState / SocketAddr are recording stand-ins (env.rs).
use crate::env::*;

// `format!` builds the human-readable text of the refusal; core::fmt dominates CBMC's cost (measured 245 s -> 4 s elsewhere) and the
// text is not part of the contract (the status CODE is), so the macro yields an opaque message here.
#[allow(unused_macros)]
macro_rules! format {
    ($($t:tt)*) => {
        crate::env::Msg
    };
}
// ---- end of prelude ---------------------------------------------------------------------------
