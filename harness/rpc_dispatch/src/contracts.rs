//! C13, dispatch glue. `try_handle_request(req, state, remote_addr)`:
//!   * asks the registry, for the request's OWN path, byte for byte (nothing is trimmed,
//!     normalised or pre-filtered);
//!   * registry has a handler  => that handler runs exactly once on (remote_addr, headers, body) of this request and its reply
//!     (Ok or Err) is returned unchanged;
//!   * registry has none       => Err(Status::unavailable(..)) ("Unknown service"), and no handler runs.
//! Class P for `dp_dispatch` (path = ANY string of <= 15 ASCII bytes, everything else arbitrary; the function is loop-free);
//! `dp_path_0..7` repeat it for a table of concrete unusual paths (class B) so that a change which starts to INSPECT the
//! path (parsing, splitting, prefix tests) is decided on concrete strings even where the symbolic-string harness would run into an unwinding bound.
use core::cell::Cell;

use super::*;

fn leak<T>(v: T) -> &'static T {
    Box::leak(Box::new(v))
}

fn dispatch_contract(buf: [u8; PATH_CAP], len: usize) {
    let registered: bool = kani::any();
    let answer: Result<Body, Status> = if kani::any() {
        Ok(Body(hyper::Body(kani::any())))
    } else {
        let c: u8 = kani::any();
        Err(Status { code: if kani::any() { ErrorCode::ServiceUnavailable } else { ErrorCode::Other(c) } })
    };
    let h: &'static RecHandler = leak(RecHandler { calls: Cell::new(0), last: Cell::new(None), answer });
    let lookups: &'static Cell<usize> = leak(Cell::new(0));
    let asked: &'static Cell<[u8; PATH_CAP]> = leak(Cell::new([0u8; PATH_CAP]));
    let asked_len: &'static Cell<usize> = leak(Cell::new(0));
    let state = ServerState { registered: if registered { Some(h) } else { None }, lookups, asked, asked_len };
    let headers = HeaderMap(kani::any());
    let body = hyper::Body(kani::any());
    let remote: SocketAddr = kani::any();
    let req = Request { parts: Parts { uri: Uri { buf, len }, headers }, body };

    let r = (try_handle_request(req, state, remote));

    assert!(lookups.get() >= 1, "the registry is asked about this request");
    assert!(asked_len.get() == len, "for the request's own path (nothing trimmed or normalised)");
    let got = asked.get();
    let mut i = 0;
    while i < PATH_CAP {
        if i < len {
            assert!(got[i] == buf[i], "for the request's own path, byte for byte");
        }
        i += 1;
    }
    if registered {
        assert!(h.calls.get() == 1, "a request whose service is registered is dispatched to its handler, exactly once");
        assert!(h.last.get() == Some(HandlerCall { remote_addr: remote, headers, body: Body(body) }), "with this request's peer address, headers and body");
        assert!(r == answer, "and the handler's reply (or error) is returned unchanged");
    } else {
        assert!(h.calls.get() == 0, "no handler runs for an unregistered / removed service");
        assert!(r == Err(Status { code: ErrorCode::ServiceUnavailable }), "it is refused as an unknown service");
    }
    kani::cover!(registered && r.is_ok(), "served");
    kani::cover!(registered && r.is_err(), "handler error passed on");
    kani::cover!(!registered, "refused");
}

/// any path of <= PATH_CAP ASCII bytes
#[kani::proof]
#[kani::unwind(20)]
fn dp_dispatch() {
    let buf: [u8; PATH_CAP] = kani::any();
    let len: usize = kani::any();
    kani::assume(len <= PATH_CAP);
    let mut i = 0;
    while i < PATH_CAP {
        kani::assume(buf[i] < 0x80);
        i += 1;
    }
    dispatch_contract(buf, len);
}

// every path is shorter than 16 bytes: core's memchr switches to an alignment-dependent word loop at 2 * size_of::<usize>() bytes, which CBMC cannot decide
const PATHS: [&str; 8] = ["/svc/msg", "/m/v1/s5/P", "//ping/M", "/", "", "noslash", "/a/b/", "/s/m?x=1"];

fn path_case(i: usize) {
    let p = PATHS[i].as_bytes();
    let mut buf = [0u8; PATH_CAP];
    let mut j = 0;
    while j < p.len() {
        buf[j] = p[j];
        j += 1;
    }
    dispatch_contract(buf, p.len());
}
/// concrete unusual paths: service or message names containing '/', empty segments, no leading slash, the empty path
macro_rules! path_harness {
    ($name:ident, $i:expr) => {
        #[kani::proof]
        #[kani::unwind(20)]
        fn $name() {
            path_case($i);
        }
    };
}
path_harness!(dp_path_0, 0);
path_harness!(dp_path_1, 1);
path_harness!(dp_path_2, 2);
path_harness!(dp_path_3, 3);
path_harness!(dp_path_4, 4);
path_harness!(dp_path_5, 5);
path_harness!(dp_path_6, 6);
path_harness!(dp_path_7, 7);

// native replay of Kani counterexamples (tools/replay.py writes the file)
#[cfg(verif_replay)]
include!("/verif/build/rpc_dispatch/replay_tests.rs");
