//! Unit `rpc_dispatch` (C13, dispatch glue): contract on `try_handle_request` sliced verbatim from
//! /repo/datacake-rpc/src/net/server.rs (async/await de-sugared). The registry (`ServerState::get_handler`) is linked BY CONTRACT
//! (a recording stand-in answering arbitrarily; the real one is the obligations of unit rpc_registry); the contract here is that the
//! dispatch decision is EXACTLY the registry's answer for the request's own path: served by that handler iff the registry has one,
//! refused as unavailable / unknown service otherwise, whatever the path looks like.
#![allow(dead_code, unused_imports)]

pub mod env;

#[path = "/verif/build/rpc_dispatch/gen/dispatch.rs"]
pub mod dispatch;
