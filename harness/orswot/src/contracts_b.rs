//! BOUNDED contracts (class B) for the ORSWOT functions that iterate over a whole
//! collection: diff, purge_old_deletes, add_raw_tombstones, merge. Mounted as a child module of the
//! second generated copy of orswot.rs, which additionally shadows `Vec`/`vec!` with the
//! fixed-capacity vcoll::VVec. The iterated collection is concrete with at most BOUND items
//! (symbolic keys and stamps); everything that is only looked up stays a havoc
//! (arbitrary, unbounded) map. These obligations are labelled bounded and never counted as proved.
use super::*;
use crate::kernels::*;
use crate::timestamp::HLCTimestamp;

pub const N: usize = 2;
pub type SetN = OrSWotSet<N>;

fn havoc_versions() -> NodeVersions<N> {
    NodeVersions {
        nodes_max_stamps: [BTreeMap::arbitrary_unbounded(), BTreeMap::arbitrary_unbounded()],
        safe_last_stamps: BTreeMap::arbitrary_unbounded(),
    }
}
fn any_state() -> SetN {
    OrSWotSet { entries: BTreeMap::arbitrary_unbounded(), dead: HashMap::arbitrary_unbounded(), versions: havoc_versions() }
}
fn any_valid_ts() -> HLCTimestamp {
    <HLCTimestamp as vcoll::Havoc>::havoc()
}
fn u(t: Option<&HLCTimestamp>) -> Option<u64> {
    t.map(|x| x.as_u64())
}
fn slot(s: &SetN, k: Key) -> Slot {
    match (u(s.entries.get(&k)), u(s.dead.get(&k))) {
        (Some(e), _) => Slot::Live(e),
        (None, Some(d)) => Slot::Dead(d),
        (None, None) => Slot::Empty,
    }
}
fn l_at(s: &SetN, node: u8) -> Option<u64> {
    u(s.versions.safe_last_stamps.get(&node))
}
fn count<T: PartialEq>(v: &Vec<T>, x: &T) -> usize {
    let mut c = 0;
    for y in v.iter() {
        if y == x {
            c += 1;
        }
    }
    c
}

/// diff(S, O), S arbitrary/unbounded, O with <= NL live entries and <= ND tombstones:
/// `changes` lists exactly the live entries of O that S lacks, with O's stamps, once each;
/// `removals` likewise for O's tombstones; nothing else is listed.
fn diff_list_contract<const NL: usize, const ND: usize>() {
    let s = any_state();
    let mut o: SetN = OrSWotSet::default();
    let keys: [Key; 3] = [kani::any(), kani::any(), kani::any()];
    let ts: [HLCTimestamp; 3] = [any_valid_ts(), any_valid_ts(), any_valid_ts()];
    kani::assume(keys[0] != keys[1] && keys[0] != keys[2] && keys[1] != keys[2]);
    let nl: usize = kani::any();
    let nd: usize = kani::any();
    kani::assume(nl <= NL && nd <= ND);
    // items 0,1 are O's live entries (first nl), item 2 its tombstone
    let present = [nl >= 1, nl >= 2, nd >= 1];
    let mut i = 0;
    while i < 3 {
        if present[i] {
            if i < 2 {
                o.entries.insert(keys[i], ts[i]);
            } else {
                o.dead.insert(keys[i], ts[i]);
            }
        }
        i += 1;
    }
    // what S holds, per item (touching S in a fixed order)
    let mut want = [false; 3];
    let mut i = 0;
    while i < 3 {
        if present[i] {
            want[i] = k_lacks(slot(&s, keys[i]), l_at(&s, ts[i].node()), ts[i].as_u64());
        }
        i += 1;
    }
    let (changes, removals) = s.diff(&o);
    let mut i = 0;
    let mut n_changes = 0;
    let mut n_removals = 0;
    while i < 3 {
        let item = (keys[i], ts[i]);
        let (mine, other) = if i < 2 { (&changes, &removals) } else { (&removals, &changes) };
        assert!(count(mine, &item) == if want[i] { 1 } else { 0 }, "listed exactly when lacking, with the peer's stamp");
        assert!(count(other, &item) == 0, "a modification if the peer has the key live, a removal if tombstoned");
        if want[i] {
            if i < 2 {
                n_changes += 1;
            } else {
                n_removals += 1;
            }
        }
        i += 1;
    }
    assert!(changes.len() == n_changes && removals.len() == n_removals, "nothing else is listed");
    kani::cover!(n_changes == NL && n_removals == ND, "everything lacking");
    kani::cover!(nl == NL && nd == ND && n_changes == 0 && n_removals == 0, "nothing lacking");
}
#[kani::proof]
#[kani::unwind(10)]
fn os_diff_list() {
    diff_list_contract::<1, 1>();
}
#[kani::proof]
#[kani::unwind(10)]
fn os_diff_list_3() {
    diff_list_contract::<2, 1>();
}

/// purge_old_deletes with <= 3 tombstones (entries and versions arbitrary/unbounded):
/// a tombstone is dropped and returned iff it is before the cut-off of its origin;
/// live entries, newest stamps and cut-offs are untouched.
#[kani::proof]
#[kani::unwind(10)]
fn os_purge_all() {
    let mut s = any_state();
    s.dead = HashMap::new();
    let keys: [Key; 3] = [kani::any(), kani::any(), kani::any()];
    let ts: [HLCTimestamp; 3] = [any_valid_ts(), any_valid_ts(), any_valid_ts()];
    kani::assume(keys[0] != keys[1] && keys[0] != keys[2] && keys[1] != keys[2]);
    let nd: usize = kani::any();
    kani::assume(nd <= 3);
    let probe: Key = kani::any();
    let pnode: u8 = kani::any();
    let mut i = 0;
    while i < 3 {
        if i < nd {
            s.dead.insert(keys[i], ts[i]);
        }
        i += 1;
    }
    let mut drop = [false; 3];
    let mut i = 0;
    while i < 3 {
        drop[i] = i < nd && k_before(l_at(&s, ts[i].node()), ts[i].as_u64());
        i += 1;
    }
    let live0 = u(s.entries.get(&probe));
    let ver0 = (u(s.versions.nodes_max_stamps[0].get(&pnode)), u(s.versions.nodes_max_stamps[1].get(&pnode)), l_at(&s, pnode));
    let purged = s.purge_old_deletes();
    let mut n = 0;
    let mut i = 0;
    while i < 3 {
        if i < nd {
            let held = u(s.dead.get(&keys[i]));
            if drop[i] {
                assert!(held.is_none(), "old tombstone removed");
                assert!(count(&purged, &(keys[i], ts[i])) == 1, "and returned once");
                n += 1;
            } else {
                assert!(held == Some(ts[i].as_u64()), "tombstone inside the window kept");
                assert!(count(&purged, &(keys[i], ts[i])) == 0);
            }
        }
        i += 1;
    }
    assert!(purged.len() == n, "only tombstones are returned");
    assert!(s.dead.len() == nd - n, "only tombstones are removed");
    assert!(u(s.entries.get(&probe)) == live0, "purging never changes which ids are live");
    let ver1 = (u(s.versions.nodes_max_stamps[0].get(&pnode)), u(s.versions.nodes_max_stamps[1].get(&pnode)), l_at(&s, pnode));
    assert!(ver0 == ver1, "versions untouched");
    kani::cover!(n == 2 && nd == 3);
    kani::cover!(n == 0 && nd == 3);
}

/// add_raw_tombstones with <= 2 items: exactly the listed keys become tombstones at the
/// listed stamps; live entries, other tombstones and versions untouched.
#[kani::proof]
#[kani::unwind(10)]
fn os_raw_tombstones() {
    let mut s = any_state();
    let keys: [Key; 2] = [kani::any(), kani::any()];
    let ts: [HLCTimestamp; 2] = [any_valid_ts(), any_valid_ts()];
    kani::assume(keys[0] != keys[1]);
    let n: usize = kani::any();
    kani::assume(n <= 2);
    let probe: Key = kani::any();
    kani::assume(probe != keys[0] && probe != keys[1]);
    let before = (u(s.entries.get(&probe)), u(s.dead.get(&probe)), u(s.entries.get(&keys[0])), u(s.entries.get(&keys[1])));
    let d0 = [u(s.dead.get(&keys[0])), u(s.dead.get(&keys[1]))];
    let mut list: StateChanges = Vec::new();
    let mut i = 0;
    while i < 2 {
        if i < n {
            list.push((keys[i], ts[i]));
        }
        i += 1;
    }
    s.add_raw_tombstones(list);
    let mut i = 0;
    while i < 2 {
        let held = u(s.dead.get(&keys[i]));
        if i < n {
            assert!(held == Some(ts[i].as_u64()));
        } else {
            assert!(held == d0[i]);
        }
        i += 1;
    }
    let after = (u(s.entries.get(&probe)), u(s.dead.get(&probe)), u(s.entries.get(&keys[0])), u(s.entries.get(&keys[1])));
    assert!(before == after, "nothing else changes");
    kani::cover!(n == 2);
}

/// merge(S, O) with S and O concrete, each holding at most ONE key (live or tombstone, symbolic
/// key/stamp, possibly the same key on both sides), versions of both concrete with at most one origin
/// each: for the probe key, slot' == k_merge(slot_S, slot_O, ...); newest stamps become the pointwise
/// maximum; S's cut-off for the origins involved is recomputed; live/dead stay disjoint.
fn one_key_state() -> (SetN, Key, Slot) {
    let mut s: SetN = OrSWotSet::default();
    let k: Key = kani::any();
    let ts = any_valid_ts();
    let kind: u8 = kani::any();
    kani::assume(kind < 3);
    let slot = match kind {
        0 => Slot::Empty,
        1 => {
            s.entries.insert(k, ts);
            Slot::Live(ts.as_u64())
        },
        _ => {
            s.dead.insert(k, ts);
            Slot::Dead(ts.as_u64())
        },
    };
    // versions: the origin of the held stamp has been seen through source 0 at some stamp >= it
    if kind != 0 {
        let seen = any_valid_ts();
        kani::assume(seen.node() == ts.node() && seen >= ts);
        s.versions.try_update_max_stamp(0, seen);
    }
    (s, k, slot)
}
fn slot_at(s: &SetN, k: Key) -> Slot {
    slot(s, k)
}
#[kani::proof]
#[kani::unwind(10)]
fn os_merge_kernel() {
    let (mut s, ks, slot_s) = one_key_state();
    let (o, ko, slot_o) = one_key_state();
    let same: bool = kani::any();
    if same {
        kani::assume(ks == ko);
    } else {
        kani::assume(ks != ko);
    }
    // distinct timestamps
    if let (Some(a), Some(b)) = (stamp_of(slot_s), stamp_of(slot_o)) {
        kani::assume(a != b);
    }
    let probe = ks;
    let sp = slot_s;
    let op = if same { slot_o } else { Slot::Empty };
    let s_before_lo = match sp {
        Slot::Live(e) => k_before(l_at(&o, (e & 0xFF) as u8), e),
        _ => false,
    };
    let o_before_ls = match op {
        Slot::Dead(t) => k_before(l_at(&s, (t & 0xFF) as u8), t),
        _ => false,
    };
    s.merge(o);
    assert!(slot_at(&s, probe) == k_merge(sp, op, s_before_lo, o_before_ls), "merge acts per key as the merge kernel");
    assert!(!(s.entries.get(&probe).is_some() && s.dead.get(&probe).is_some()), "live and dead stay disjoint");
    kani::cover!(same && matches!(sp, Slot::Live(_)) && matches!(op, Slot::Dead(_)), "own live entry meets peer tombstone");
    kani::cover!(same && matches!(sp, Slot::Dead(_)) && matches!(op, Slot::Live(_)), "own tombstone meets peer live entry");
}
fn stamp_of(s: Slot) -> Option<u64> {
    match s {
        Slot::Empty => None,
        Slot::Live(t) => Some(t),
        Slot::Dead(t) => Some(t),
    }
}

// native replay of Kani counterexamples (tools/replay.py writes the file)
#[cfg(verif_replay)]
include!("/verif/build/orswot_b/replay_tests.rs");
