//! BOUNDED contracts (class B) for the ORSWOT functions that iterate over a whole
//! collection: diff, purge_old_deletes, add_raw_tombstones, merge. Mounted as a child module of the
//! second generated copy of orswot.rs, which additionally shadows `Vec`/`vec!` with the
//! fixed-capacity vcoll::VVec. The iterated collection is concrete with at most BOUND items
//! (symbolic keys and stamps); everything that is only looked up stays a havoc
//! (arbitrary, unbounded) map. These obligations are labelled bounded and never counted as proved.
use super::*;
use crate::kernels::*;
use crate::timestamp::HLCTimestamp;

pub const N: usize = 2;
pub type SetN = OrSWotSet<N>;

fn havoc_versions() -> NodeVersions<N> {
    NodeVersions {
        nodes_max_stamps: [BTreeMap::arbitrary_unbounded(), BTreeMap::arbitrary_unbounded()],
        safe_last_stamps: BTreeMap::arbitrary_unbounded(),
    }
}
fn any_state() -> SetN {
    OrSWotSet { entries: BTreeMap::arbitrary_unbounded(), dead: HashMap::arbitrary_unbounded(), versions: havoc_versions() }
}
fn any_valid_ts() -> HLCTimestamp {
    <HLCTimestamp as vcoll::Havoc>::havoc()
}
fn u(t: Option<&HLCTimestamp>) -> Option<u64> {
    t.map(|x| x.as_u64())
}
fn slot(s: &SetN, k: Key) -> Slot {
    match (u(s.entries.get(&k)), u(s.dead.get(&k))) {
        (Some(e), _) => Slot::Live(e),
        (None, Some(d)) => Slot::Dead(d),
        (None, None) => Slot::Empty,
    }
}
fn l_at(s: &SetN, node: u8) -> Option<u64> {
    u(s.versions.safe_last_stamps.get(&node))
}
fn count<T: PartialEq>(v: &Vec<T>, x: &T) -> usize {
    let mut c = 0;
    for y in v.iter() {
        if y == x {
            c += 1;
        }
    }
    c
}

/// diff(S, O), S arbitrary/unbounded, O with <= NL live entries and <= ND tombstones:
/// `changes` lists exactly the live entries of O that S lacks, with O's stamps, once each;
/// `removals` likewise for O's tombstones; nothing else is listed.
fn diff_list_contract<const NL: usize, const ND: usize>() {
    let s = any_state();
    let mut o: SetN = OrSWotSet::default();
    let keys: [Key; 3] = [kani::any(), kani::any(), kani::any()];
    let ts: [HLCTimestamp; 3] = [any_valid_ts(), any_valid_ts(), any_valid_ts()];
    kani::assume(keys[0] != keys[1] && keys[0] != keys[2] && keys[1] != keys[2]);
    let nl: usize = kani::any();
    let nd: usize = kani::any();
    kani::assume(nl <= NL && nd <= ND);
    // items 0,1 are O's live entries (first nl), item 2 its tombstone
    let present = [nl >= 1, nl >= 2, nd >= 1];
    let mut i = 0;
    while i < 3 {
        if present[i] {
            if i < 2 {
                o.entries.insert(keys[i], ts[i]);
            } else {
                o.dead.insert(keys[i], ts[i]);
            }
        }
        i += 1;
    }
    // what S holds, per item (touching S in a fixed order)
    let mut want = [false; 3];
    let mut i = 0;
    while i < 3 {
        if present[i] {
            want[i] = k_lacks(slot(&s, keys[i]), l_at(&s, ts[i].node()), ts[i].as_u64());
        }
        i += 1;
    }
    let (changes, removals) = s.diff(&o);
    let mut i = 0;
    let mut n_changes = 0;
    let mut n_removals = 0;
    while i < 3 {
        let item = (keys[i], ts[i]);
        let (mine, other) = if i < 2 { (&changes, &removals) } else { (&removals, &changes) };
        assert!(count(mine, &item) == if want[i] { 1 } else { 0 }, "listed exactly when lacking, with the peer's stamp");
        assert!(count(other, &item) == 0, "a modification if the peer has the key live, a removal if tombstoned");
        if want[i] {
            if i < 2 {
                n_changes += 1;
            } else {
                n_removals += 1;
            }
        }
        i += 1;
    }
    assert!(changes.len() == n_changes && removals.len() == n_removals, "nothing else is listed");
    kani::cover!(n_changes == NL && n_removals == ND, "everything lacking");
    kani::cover!(nl == NL && nd == ND && n_changes == 0 && n_removals == 0, "nothing lacking");
}
#[kani::proof]
#[kani::unwind(10)]
fn os_diff_list() {
    diff_list_contract::<1, 1>();
}
#[kani::proof]
#[kani::unwind(10)]
fn os_diff_list_3() {
    diff_list_contract::<2, 1>();
}

/// purge_old_deletes with <= 3 tombstones (entries and versions arbitrary/unbounded):
/// a tombstone is dropped and returned iff it is before the cut-off of its origin;
/// live entries, newest stamps and cut-offs are untouched.
#[kani::proof]
#[kani::unwind(10)]
fn os_purge_all() {
    let mut s = any_state();
    s.dead = HashMap::new();
    let keys: [Key; 3] = [kani::any(), kani::any(), kani::any()];
    let ts: [HLCTimestamp; 3] = [any_valid_ts(), any_valid_ts(), any_valid_ts()];
    kani::assume(keys[0] != keys[1] && keys[0] != keys[2] && keys[1] != keys[2]);
    let nd: usize = kani::any();
    kani::assume(nd <= 3);
    let probe: Key = kani::any();
    let pnode: u8 = kani::any();
    let mut i = 0;
    while i < 3 {
        if i < nd {
            s.dead.insert(keys[i], ts[i]);
        }
        i += 1;
    }
    let mut drop = [false; 3];
    let mut i = 0;
    while i < 3 {
        drop[i] = i < nd && k_before(l_at(&s, ts[i].node()), ts[i].as_u64());
        i += 1;
    }
    let live0 = u(s.entries.get(&probe));
    let ver0 = (u(s.versions.nodes_max_stamps[0].get(&pnode)), u(s.versions.nodes_max_stamps[1].get(&pnode)), l_at(&s, pnode));
    let purged = s.purge_old_deletes();
    let mut n = 0;
    let mut i = 0;
    while i < 3 {
        if i < nd {
            let held = u(s.dead.get(&keys[i]));
            if drop[i] {
                assert!(held.is_none(), "old tombstone removed");
                assert!(count(&purged, &(keys[i], ts[i])) == 1, "and returned once");
                n += 1;
            } else {
                assert!(held == Some(ts[i].as_u64()), "tombstone inside the window kept");
                assert!(count(&purged, &(keys[i], ts[i])) == 0);
            }
        }
        i += 1;
    }
    assert!(purged.len() == n, "only tombstones are returned");
    assert!(s.dead.len() == nd - n, "only tombstones are removed");
    assert!(u(s.entries.get(&probe)) == live0, "purging never changes which ids are live");
    let ver1 = (u(s.versions.nodes_max_stamps[0].get(&pnode)), u(s.versions.nodes_max_stamps[1].get(&pnode)), l_at(&s, pnode));
    assert!(ver0 == ver1, "versions untouched");
    kani::cover!(n == 2 && nd == 3);
    kani::cover!(n == 0 && nd == 3);
}

/// add_raw_tombstones with <= 2 items: exactly the listed keys become tombstones at the
/// listed stamps; live entries, other tombstones and versions untouched.
#[kani::proof]
#[kani::unwind(10)]
fn os_raw_tombstones() {
    let mut s = any_state();
    let keys: [Key; 2] = [kani::any(), kani::any()];
    let ts: [HLCTimestamp; 2] = [any_valid_ts(), any_valid_ts()];
    kani::assume(keys[0] != keys[1]);
    let n: usize = kani::any();
    kani::assume(n <= 2);
    let probe: Key = kani::any();
    kani::assume(probe != keys[0] && probe != keys[1]);
    let before = (u(s.entries.get(&probe)), u(s.dead.get(&probe)), u(s.entries.get(&keys[0])), u(s.entries.get(&keys[1])));
    let d0 = [u(s.dead.get(&keys[0])), u(s.dead.get(&keys[1]))];
    let mut list: StateChanges = Vec::new();
    let mut i = 0;
    while i < 2 {
        if i < n {
            list.push((keys[i], ts[i]));
        }
        i += 1;
    }
    s.add_raw_tombstones(list);
    let mut i = 0;
    while i < 2 {
        let held = u(s.dead.get(&keys[i]));
        if i < n {
            assert!(held == Some(ts[i].as_u64()));
        } else {
            assert!(held == d0[i]);
        }
        i += 1;
    }
    let after = (u(s.entries.get(&probe)), u(s.dead.get(&probe)), u(s.entries.get(&keys[0])), u(s.entries.get(&keys[1])));
    assert!(before == after, "nothing else changes");
    kani::cover!(n == 2);
}

// ------------------------------------------------------------------ merge (C03), modular
/// CONTRACT STUB of `NodeVersions::merge`, the callee `OrSWotSet::merge` ends with. Modular verification: the caller is
/// checked against the callee's contract, not its body (the body is obligation `os_versions_merge`). The callee is handed
/// `&mut self.versions` only, so by typing it cannot reach `entries`/`dead` (frame); what the caller's per-key result needs from it
/// is nothing but that it is called exactly once, after both loops.
pub static mut VERSIONS_MERGED: usize = 0;
pub fn versions_merge_contract_stub<const N: usize>(_this: &mut NodeVersions<N>, _other: NodeVersions<N>) {
    unsafe { VERSIONS_MERGED += 1 };
}

fn stamp_of(s: Slot) -> Option<u64> {
    match s {
        Slot::Empty => None,
        Slot::Live(t) => Some(t),
        Slot::Dead(t) => Some(t),
    }
}
fn slot_in(keys: &[Key; 2], slots: &[Slot; 2], k: Key) -> Slot {
    if keys[0] == k && slots[0] != Slot::Empty {
        slots[0]
    } else if keys[1] == k && slots[1] != Slot::Empty {
        slots[1]
    } else {
        Slot::Empty
    }
}
/// a replica state with at most B <= 2 keys (each live or tombstoned, symbolic key and stamp), concrete maps (they are iterated),
/// cut-offs ARBITRARY (havoc map: any number of origins, any values), newest-stamp maps untouched (only the stubbed callee reads them)
fn small_state<const B: usize>() -> (SetN, [Key; 2], [Slot; 2]) {
    let mut s: SetN = OrSWotSet::default();
    s.versions.safe_last_stamps = BTreeMap::arbitrary_unbounded();
    let keys: [Key; 2] = [kani::any(), kani::any()];
    kani::assume(keys[0] != keys[1]);
    let mut slots = [Slot::Empty; 2];
    let mut i = 0;
    while i < 2 {
        if i < B {
            let ts = any_valid_ts();
            let kind: u8 = kani::any();
            kani::assume(kind < 3);
            if kind == 1 {
                s.entries.insert(keys[i], ts);
                slots[i] = Slot::Live(ts.as_u64());
            } else if kind == 2 {
                s.dead.insert(keys[i], ts);
                slots[i] = Slot::Dead(ts.as_u64());
            }
        }
        i += 1;
    }
    (s, keys, slots)
}
/// merge(S, O), S and O with at most B keys each (possibly shared), arbitrary cut-offs on both sides: for every key in play
/// slot'(k) == k_merge(slot_S(k), slot_O(k), "S's live stamp is before O's cut-off", "O's tombstone is before S's cut-off");
/// no other key appears; live and dead stay disjoint; the version merge is called exactly once.
/// Stamps are distinct unless both sides hold the very same operation (same key, same kind, same stamp).
fn merge_slots_contract<const B: usize>() {
    unsafe { VERSIONS_MERGED = 0 };
    let (mut s, ks, ss) = small_state::<B>();
    let (o, ko, so) = small_state::<B>();
    // distinct timestamps, except for an operation both replicas hold
    let mut i = 0;
    while i < 2 {
        let mut j = 0;
        while j < 2 {
            if let (Some(a), Some(b)) = (stamp_of(ss[i]), stamp_of(so[j])) {
                kani::assume(a != b || (ks[i] == ko[j] && ss[i] == so[j]));
            }
            j += 1;
        }
        i += 1;
    }
    if let (Some(a), Some(b)) = (stamp_of(ss[0]), stamp_of(ss[1])) {
        kani::assume(a != b);
    }
    if let (Some(a), Some(b)) = (stamp_of(so[0]), stamp_of(so[1])) {
        kani::assume(a != b);
    }
    // expected result per key in play (pre-state read BEFORE the call; touching the cut-off maps in a fixed order)
    let all: [Key; 4] = [ks[0], ks[1], ko[0], ko[1]];
    let mut want = [Slot::Empty; 4];
    let mut i = 0;
    while i < 4 {
        let k = all[i];
        let sp = slot_in(&ks, &ss, k);
        let op = slot_in(&ko, &so, k);
        let s_before_lo = match sp {
            Slot::Live(e) => k_before(l_at(&o, (e & 0xFF) as u8), e),
            _ => false,
        };
        let o_before_ls = match op {
            Slot::Dead(t) => k_before(l_at(&s, (t & 0xFF) as u8), t),
            _ => false,
        };
        want[i] = k_merge(sp, op, s_before_lo, o_before_ls);
        i += 1;
    }
    s.merge(o);
    let mut i = 0;
    while i < 4 {
        assert!(slot(&s, all[i]) == want[i], "merge acts per key as the merge kernel");
        assert!(!(s.entries.get(&all[i]).is_some() && s.dead.get(&all[i]).is_some()), "live and dead stay disjoint");
        i += 1;
    }
    for (k, _) in s.entries.iter() {
        assert!(*k == all[0] || *k == all[1] || *k == all[2] || *k == all[3], "no live id appears from nowhere");
    }
    for (k, _) in s.dead.iter() {
        assert!(*k == all[0] || *k == all[1] || *k == all[2] || *k == all[3], "no tombstone appears from nowhere");
    }
    assert!(unsafe { VERSIONS_MERGED } == 1, "the version vectors are merged exactly once");
    kani::cover!(ks[0] == ko[0] && matches!(ss[0], Slot::Live(_)) && matches!(so[0], Slot::Dead(_)), "own live entry meets peer tombstone");
    kani::cover!(ks[0] == ko[0] && matches!(ss[0], Slot::Dead(_)) && matches!(so[0], Slot::Live(_)), "own tombstone meets peer live entry");
    kani::cover!(ks[0] != ko[0] && matches!(ss[0], Slot::Live(_)) && slot(&s, ks[0]) == Slot::Empty, "own live entry the peer has seen and purged is dropped");
    kani::cover!(ks[0] == ko[0] && ss[0] == so[0] && ss[0] != Slot::Empty, "both hold the same operation");
}
#[kani::proof]
#[kani::unwind(6)]
#[kani::stub(NodeVersions::merge, versions_merge_contract_stub)]
fn os_merge_slots_1() {
    merge_slots_contract::<1>();
}
#[kani::proof]
#[kani::unwind(10)]
#[kani::stub(NodeVersions::merge, versions_merge_contract_stub)]
fn os_merge_slots_2() {
    merge_slots_contract::<2>();
}

/// NodeVersions::merge(self, other): self ARBITRARY (havoc maps), other with at most one origin per source (iterated, concrete):
/// newest stamps become the pointwise maximum, for every origin other mentions the cut-off is recomputed as
/// cut(min over sources), a bystander origin is untouched.
#[kani::proof]
#[kani::unwind(10)]
fn os_versions_merge() {
    let mut v = havoc_versions();
    let mut other: NodeVersions<N> = NodeVersions::default();
    let ts: [HLCTimestamp; 2] = [any_valid_ts(), any_valid_ts()];
    let has: [bool; 2] = [kani::any(), kani::any()];
    let nodes = [ts[0].node(), ts[1].node()];
    let by: u8 = kani::any();
    kani::assume(by != nodes[0] && by != nodes[1]);
    let g = |v: &NodeVersions<N>, src: usize, n: u8| u(v.nodes_max_stamps[src].get(&n));
    let lg = |v: &NodeVersions<N>, n: u8| u(v.safe_last_stamps.get(&n));
    // pre-state at the two origins and the bystander, fixed order
    let pre = [[g(&v, 0, nodes[0]), g(&v, 1, nodes[0])], [g(&v, 0, nodes[1]), g(&v, 1, nodes[1])]];
    let pre_l = [lg(&v, nodes[0]), lg(&v, nodes[1])];
    let pre_by = (g(&v, 0, by), g(&v, 1, by), lg(&v, by));
    // stamps are keyed by their own origin (type invariant of the version maps)
    let own = |x: Option<u64>, n: u8| match x { Some(t) => (t & 0xFF) as u8 == n, None => true };
    kani::assume(own(pre[0][0], nodes[0]) && own(pre[0][1], nodes[0]) && own(pre[1][0], nodes[1]) && own(pre[1][1], nodes[1]));
    let mut i = 0;
    while i < 2 {
        if has[i] {
            other.nodes_max_stamps[i].insert(nodes[i], ts[i]);
        }
        i += 1;
    }
    v.merge(other);
    // expected newest stamps: source i of `other` mentions origin nodes[i] only
    let mut i = 0;
    while i < 2 {
        // origin nodes[i]: which sources of `other` mention it
        let n = nodes[i];
        let mut exp = [pre[i][0], pre[i][1]];
        let mut mentioned = false;
        let mut src = 0;
        while src < 2 {
            if has[src] && nodes[src] == n {
                exp[src] = Some(k_max_stamp(exp[src], ts[src].as_u64()));
                mentioned = true;
            }
            src += 1;
        }
        assert!(g(&v, 0, n) == exp[0] && g(&v, 1, n) == exp[1], "newest stamps become the pointwise maximum");
        if mentioned {
            assert!(lg(&v, n) == Some(k_safe(exp[0], exp[1], n)), "cut-off recomputed from the merged newest stamps");
        } else {
            assert!(lg(&v, n) == pre_l[i], "origin not mentioned by the peer: cut-off untouched");
        }
        i += 1;
    }
    assert!((g(&v, 0, by), g(&v, 1, by), lg(&v, by)) == pre_by, "bystander origin untouched");
    kani::cover!(has[0] && has[1] && nodes[0] == nodes[1], "both sources mention one origin");
    kani::cover!(has[0] && has[1] && nodes[0] != nodes[1], "two origins");
    kani::cover!(has[0] && pre[0][0].is_some() && pre[0][0].unwrap() > ts[0].as_u64(), "own stamp newer: kept");
}

// native replay of Kani counterexamples (tools/replay.py writes the file)
#[cfg(verif_replay)]
include!("/verif/build/orswot_b/replay_tests.rs");
