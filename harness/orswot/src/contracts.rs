//! Contracts for the ORSWOT set (C04, C05, C08; callee contracts for C02, C07).
//! Mounted as a child module of the generated copy of orswot.rs.
//!
//! State `S = (E, D, M[0..2), L)`: entries, dead, nodes_max_stamps, safe_last_stamps.
//! Class P harnesses start from `any_state()`: every map is a havoc map = an ARBITRARY map
//! of ANY size (vcoll); only the footprint of the call is ever materialised, so the
//! proof is independent of how many keys / origins the set holds.
use super::*;
use crate::kernels::*;
use crate::timestamp::HLCTimestamp;

pub const N: usize = 2; // NUM_SOURCES in datacake-eventual-consistency
pub type SetN = OrSWotSet<N>;

// ------------------------------------------------------------------ views
pub fn any_state() -> SetN {
    OrSWotSet {
        entries: BTreeMap::arbitrary_unbounded(),
        dead: HashMap::arbitrary_unbounded(),
        versions: NodeVersions {
            nodes_max_stamps: [BTreeMap::arbitrary_unbounded(), BTreeMap::arbitrary_unbounded()],
            safe_last_stamps: BTreeMap::arbitrary_unbounded(),
        },
    }
}

pub fn any_valid_ts() -> HLCTimestamp {
    <HLCTimestamp as vcoll::Havoc>::havoc()
}

fn u(t: Option<&HLCTimestamp>) -> Option<u64> {
    t.map(|x| x.as_u64())
}
pub fn live_at(s: &SetN, k: Key) -> Option<u64> {
    u(s.entries.get(&k))
}
pub fn dead_at(s: &SetN, k: Key) -> Option<u64> {
    u(s.dead.get(&k))
}
pub fn m_at(s: &SetN, source: usize, node: u8) -> Option<u64> {
    u(s.versions.nodes_max_stamps[source].get(&node))
}
pub fn l_at(s: &SetN, node: u8) -> Option<u64> {
    u(s.versions.safe_last_stamps.get(&node))
}

/// live and dead are disjoint at k
pub fn wf_key(s: &SetN, k: Key) -> bool {
    !(live_at(s, k).is_some() && dead_at(s, k).is_some())
}
/// the slot view (requires wf_key)
pub fn slot(s: &SetN, k: Key) -> Slot {
    match (live_at(s, k), dead_at(s, k)) {
        (Some(e), _) => Slot::Live(e),
        (None, Some(d)) => Slot::Dead(d),
        (None, None) => Slot::Empty,
    }
}
/// cut-off invariant at origin `node`: defined exactly when some source has seen the
/// origin, and then equal to cut(min over sources).
pub fn wf_node(s: &SetN, node: u8) -> bool {
    let (m0, m1, l) = (m_at(s, 0, node), m_at(s, 1, node), l_at(s, node));
    if m0.is_none() && m1.is_none() {
        l.is_none()
    } else {
        l == Some(k_safe(m0, m1, node))
    }
}
/// every stamp in the footprint of (k, node) belongs to origin `node` where it must
pub fn wf_origin(s: &SetN, node: u8) -> bool {
    let ok = |x: Option<u64>| match x {
        Some(v) => (v & 0xFF) as u8 == node,
        None => true,
    };
    ok(m_at(s, 0, node)) && ok(m_at(s, 1, node)) && ok(l_at(s, node))
}

#[derive(Clone, Copy, PartialEq, Eq)]
pub struct View {
    pub live: Option<u64>,
    pub dead: Option<u64>,
    pub live2: Option<u64>,
    pub dead2: Option<u64>,
    pub m0: Option<u64>,
    pub m1: Option<u64>,
    pub l: Option<u64>,
    pub m0b: Option<u64>,
    pub m1b: Option<u64>,
    pub lb: Option<u64>,
}
/// the whole observed footprint: touched key k, bystander key k2, origin node, bystander node n2.
/// Touching in a fixed order also fixes the order of the counterexample values for replay.
pub fn view(s: &SetN, k: Key, k2: Key, node: u8, n2: u8) -> View {
    View {
        live: live_at(s, k),
        dead: dead_at(s, k),
        live2: live_at(s, k2),
        dead2: dead_at(s, k2),
        m0: m_at(s, 0, node),
        m1: m_at(s, 1, node),
        l: l_at(s, node),
        m0b: m_at(s, 0, n2),
        m1b: m_at(s, 1, n2),
        lb: l_at(s, n2),
    }
}

pub struct Ctx {
    pub s: SetN,
    pub k: Key,
    pub k2: Key,
    pub ts: HLCTimestamp,
    pub t: u64,
    pub node: u8,
    pub n2: u8,
    pub source: usize,
    pub pre: View,
}
/// arbitrary well-formed state + arbitrary operation arguments (the common precondition)
pub fn any_ctx() -> Ctx {
    let s = any_state();
    let k: Key = kani::any();
    let k2: Key = kani::any();
    let ts = any_valid_ts();
    let node = ts.node();
    let n2: u8 = kani::any();
    let source: usize = kani::any();
    kani::assume(k2 != k && n2 != node && source < N);
    let pre = view(&s, k, k2, node, n2);
    kani::assume(wf_key(&s, k) && wf_key(&s, k2));
    kani::assume(wf_node(&s, node) && wf_node(&s, n2));
    kani::assume(wf_origin(&s, node) && wf_origin(&s, n2));
    Ctx { s, k, k2, ts, t: ts.as_u64(), node, n2, source, pre }
}

fn versions_after_accept(pre: &View, post: &View, source: usize, t: u64, node: u8) {
    let (m0, m1) = if source == 0 {
        (Some(k_max_stamp(pre.m0, t)), pre.m1)
    } else {
        (pre.m0, Some(k_max_stamp(pre.m1, t)))
    };
    assert!(post.m0 == m0 && post.m1 == m1, "newest stamp of the source is max(old, ts); other source untouched");
    assert!(post.l == Some(k_safe(m0, m1, node)), "cut-off recomputed as cut(min over sources)");
}
fn frame_bystanders(pre: &View, post: &View) {
    assert!(post.live2 == pre.live2 && post.dead2 == pre.dead2, "frame: bystander key untouched");
    assert!(post.m0b == pre.m0b && post.m1b == pre.m1b && post.lb == pre.lb, "frame: bystander origin untouched");
}

// ------------------------------------------------------------------ NodeVersions

/// compute_safe_last_stamp(node): L'(node) == cut(min_s (M_s(node) or zero(node))); nothing else changes.
#[kani::proof]
#[kani::unwind(7)]
fn os_safe_stamp() {
    let mut c = any_ctx_no_wf();
    c.s.versions.compute_safe_last_stamp(c.node);
    let post = view(&c.s, c.k, c.k2, c.node, c.n2);
    assert!(post.l == Some(k_safe(c.pre.m0, c.pre.m1, c.node)));
    assert!(post.m0 == c.pre.m0 && post.m1 == c.pre.m1);
    frame_bystanders(&c.pre, &post);
    if c.pre.m0.is_some() || c.pre.m1.is_some() {
        assert!(wf_node(&c.s, c.node), "establishes the cut-off invariant");
    }
    kani::cover!(c.pre.m0.is_some() && c.pre.m1.is_none(), "one source has seen the origin");
    kani::cover!(c.pre.m0.is_some() && c.pre.m1.is_some() && (c.pre.m0.unwrap() >> 32) < 3600, "saturating cut");
}
/// like any_ctx but without assuming the cut-off invariant (compute establishes it)
fn any_ctx_no_wf() -> Ctx {
    let s = any_state();
    let k: Key = kani::any();
    let k2: Key = kani::any();
    let ts = any_valid_ts();
    let node = ts.node();
    let n2: u8 = kani::any();
    let source: usize = kani::any();
    kani::assume(k2 != k && n2 != node && source < N);
    let pre = view(&s, k, k2, node, n2);
    kani::assume(wf_origin(&s, node));
    Ctx { s, k, k2, ts, t: ts.as_u64(), node, n2, source, pre }
}

/// is_ts_before_last_observed_event(ts) == before(L(node(ts)), ts)
#[kani::proof]
#[kani::unwind(7)]
fn os_before() {
    let c = any_ctx();
    let r = c.s.versions.is_ts_before_last_observed_event(c.ts);
    assert!(r == k_before(c.pre.l, c.t));
    kani::cover!(r, "older than the cut-off");
    kani::cover!(!r && c.pre.l.is_some(), "inside the window");
}

/// try_update_max_stamp(source, ts): refuses exactly the stamps before the forgiving
/// cut-off (and then changes nothing); otherwise records max and recomputes the cut-off.
#[kani::proof]
#[kani::unwind(7)]
fn os_versions_update() {
    let mut c = any_ctx();
    let r = c.s.versions.try_update_max_stamp(c.source, c.ts);
    let post = view(&c.s, c.k, c.k2, c.node, c.n2);
    assert!(r == !k_before(c.pre.l, c.t), "accepted <=> not before the cut-off of its origin");
    if r {
        versions_after_accept(&c.pre, &post, c.source, c.t, c.node);
    } else {
        assert!(post == c.pre, "refused: nothing changes");
    }
    frame_bystanders(&c.pre, &post);
    assert!(wf_node(&c.s, c.node) && wf_origin(&c.s, c.node));
    kani::cover!(r && c.pre.m0.is_some() && c.source == 0 && c.t < c.pre.m0.unwrap(), "accepted although older than the newest stamp of that source");
    kani::cover!(!r, "refused");
}

// ------------------------------------------------------------------ will_apply / get

#[kani::proof]
#[kani::unwind(7)]
fn os_will_apply() {
    let c = any_ctx();
    let r = c.s.will_apply(c.k, c.ts);
    assert!(r == k_will_apply(slot(&c.s, c.k), c.pre.l, c.t));
    let post = view(&c.s, c.k, c.k2, c.node, c.n2);
    assert!(post == c.pre, "will_apply is pure");
    kani::cover!(r && c.pre.live.is_some(), "newer than a live entry");
    kani::cover!(!r && c.pre.dead.is_some() && !k_before(c.pre.l, c.t), "not newer than a tombstone");
}

#[kani::proof]
#[kani::unwind(7)]
fn os_get() {
    let c = any_ctx();
    let r = c.s.get(&c.k).map(|x| x.as_u64());
    assert!(r == c.pre.live);
    kani::cover!(r.is_some());
}

// ------------------------------------------------------------------ insert / delete

/// insert_with_source: refused (before cut-off) => false and nothing changes; otherwise
/// slot'(k) == k_insert(slot(k), ts), return value == "the slot changed", versions updated,
/// bystanders untouched, invariants kept. The will_apply prediction made just before equals
/// the return value (for ts different from a held tombstone's stamp: distinct timestamps).
#[kani::proof]
#[kani::unwind(7)]
fn os_insert_contract() {
    let mut c = any_ctx();
    let s0 = slot(&c.s, c.k);
    let predicted = c.s.will_apply(c.k, c.ts);
    let r = c.s.insert_with_source(c.source, c.k, c.ts);
    let post = view(&c.s, c.k, c.k2, c.node, c.n2);
    assert!(wf_key(&c.s, c.k), "live and dead stay disjoint");
    let s1 = slot(&c.s, c.k);
    if k_before(c.pre.l, c.t) {
        assert!(!r && post == c.pre, "older than the cut-off: refused, nothing changes");
    } else {
        assert!(s1 == k_insert(s0, c.t), "accepted: slot' == k_insert(slot, ts)");
        assert!(r == (s1 != s0), "return value <=> the replica's view of the key changed");
        versions_after_accept(&c.pre, &post, c.source, c.t, c.node);
    }
    frame_bystanders(&c.pre, &post);
    assert!(wf_node(&c.s, c.node) && wf_origin(&c.s, c.node));
    if c.pre.dead != Some(c.t) {
        assert!(predicted == r, "will_apply made just before predicts the insert");
    }
    kani::cover!(r && matches!(s0, Slot::Dead(_)), "insert revives a tombstoned key");
    kani::cover!(!r && !k_before(c.pre.l, c.t), "accepted by the cut-off but not newer");
    kani::cover!(r && c.source == 1 && c.pre.m1.is_some() && c.t < c.pre.m1.unwrap(), "out-of-order arrival inside the window is applied");
}

#[kani::proof]
#[kani::unwind(7)]
fn os_delete_contract() {
    let mut c = any_ctx();
    let s0 = slot(&c.s, c.k);
    let predicted = c.s.will_apply(c.k, c.ts);
    let r = c.s.delete_with_source(c.source, c.k, c.ts);
    let post = view(&c.s, c.k, c.k2, c.node, c.n2);
    assert!(wf_key(&c.s, c.k), "live and dead stay disjoint");
    let s1 = slot(&c.s, c.k);
    if k_before(c.pre.l, c.t) {
        assert!(!r && post == c.pre, "older than the cut-off: refused, nothing changes");
    } else {
        assert!(s1 == k_delete(s0, c.t), "accepted: slot' == k_delete(slot, ts)");
        assert!(r == (s1 != s0), "return value <=> the replica's view of the key changed");
        versions_after_accept(&c.pre, &post, c.source, c.t, c.node);
    }
    frame_bystanders(&c.pre, &post);
    assert!(wf_node(&c.s, c.node) && wf_origin(&c.s, c.node));
    assert!(predicted == r, "will_apply made just before predicts the delete");
    kani::cover!(r && matches!(s0, Slot::Live(_)), "delete removes a live key");
    kani::cover!(!r && matches!(s0, Slot::Live(_)) && !k_before(c.pre.l, c.t), "insert wins an exact tie or is newer");
    kani::cover!(r && c.source == 0 && c.pre.m0.is_some() && c.t < c.pre.m0.unwrap(), "out-of-order arrival inside the window is applied");
}

/// the cut-off of an origin never moves backwards (so a refusal is permanent): for every
/// accepted or refused insert/delete, L'(n) >= L(n). Needs stamps at least one forgiveness
/// period after the datacake epoch (below that `cut` saturates and is not monotone).
#[kani::proof]
#[kani::unwind(7)]
fn os_cutoff_monotone() {
    let mut c = any_ctx();
    let late = |x: Option<u64>| match x {
        Some(v) => (v >> 32) >= 3600,
        None => true,
    };
    kani::assume(late(c.pre.m0) && late(c.pre.m1) && (c.t >> 32) >= 3600);
    if kani::any() {
        c.s.insert_with_source(c.source, c.k, c.ts);
    } else {
        c.s.delete_with_source(c.source, c.k, c.ts);
    }
    let post = view(&c.s, c.k, c.k2, c.node, c.n2);
    if let Some(l0) = c.pre.l {
        assert!(post.l.is_some() && post.l.unwrap() >= l0, "cut-off is monotone");
        kani::cover!(post.l.unwrap() > l0, "cut-off advances");
    }
    assert!(post.lb == c.pre.lb);
}

// ------------------------------------------------------------------ diff, pointwise

/// check_self_then_insert_to(k, ts, out): appends (k, ts) iff lacks(S, k, ts); S unchanged.
#[kani::proof]
#[kani::unwind(7)]
fn os_lacks() {
    let c = any_ctx();
    let mut out: Vec<(Key, HLCTimestamp)> = Vec::new();
    c.s.check_self_then_insert_to(c.k, c.ts, &mut out);
    let want = k_lacks(slot(&c.s, c.k), c.pre.l, c.t);
    if want {
        assert!(out.len() == 1 && out[0] == (c.k, c.ts), "listed with the peer's stamp");
    } else {
        assert!(out.is_empty(), "not listed");
    }
    let post = view(&c.s, c.k, c.k2, c.node, c.n2);
    assert!(post == c.pre);
    kani::cover!(want && c.pre.live.is_none() && c.pre.dead.is_none() && c.pre.l.is_some(), "nothing held, inside the window");
    kani::cover!(!want && c.pre.live.is_none() && c.pre.dead.is_none(), "nothing held, older than the cut-off");
}


// native replay of Kani counterexamples (tools/replay.py writes the file)
#[cfg(verif_replay)]
include!("/verif/build/orswot/replay_tests.rs");
