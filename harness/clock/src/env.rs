//! Stand-ins: flume channel (ASSUMPTION: every event is delivered exactly once, in FIFO order, to
//! the single receiver), oneshot reply channel, tokio sleep (no-op).
use core::cell::{Cell, UnsafeCell};
use std::time::Duration;

use crate::timestamp::{verif_clock, HLCTimestamp, TIMESTAMP_MAX};

pub mod oneshot {
    use super::*;
    pub struct Slot<T> {
        pub v: UnsafeCell<Option<T>>,
    }
    pub struct Sender<T> {
        pub slot: *const Slot<T>,
    }
    pub struct Receiver<T> {
        pub slot: *const Slot<T>,
    }
    pub fn channel<T: 'static>() -> (Sender<T>, Receiver<T>) {
        let s: &'static Slot<T> = Box::leak(Box::new(Slot { v: UnsafeCell::new(None) }));
        (Sender { slot: s }, Receiver { slot: s })
    }
    impl<T> Sender<T> {
        pub fn send(self, v: T) -> Result<(), T> {
            unsafe { *(*self.slot).v.get() = Some(v) };
            Ok(())
        }
    }
    impl<T> Receiver<T> {
        /// de-sugared `rx.await.expect(..)`: the reply the actor delivered on THIS channel
        pub fn expect(self, msg: &str) -> T {
            unsafe { (*(*self.slot).v.get()).take().expect(msg) }
        }
        pub fn peek(&self) -> Option<&T> {
            unsafe { (*(*self.slot).v.get()).as_ref() }
        }
    }
}

pub mod flume {
    use super::*;
    pub const QCAP: usize = 2;
    pub struct Chan<T> {
        pub q: UnsafeCell<[Option<T>; QCAP]>,
        pub sent: Cell<usize>,
        pub recvd: Cell<usize>,
        /// run for every event the moment it is enqueued (plumbing harnesses: an actor that answers)
        pub on_send: Cell<Option<fn(&T)>>,
    }
    pub struct Sender<T> {
        pub c: *const Chan<T>,
    }
    pub struct Receiver<T> {
        pub c: *const Chan<T>,
    }
    impl<T> Clone for Sender<T> {
        fn clone(&self) -> Self {
            Sender { c: self.c }
        }
    }
    pub struct Closed;
    impl core::fmt::Debug for Closed {
        fn fmt(&self, _f: &mut core::fmt::Formatter<'_>) -> core::fmt::Result {
            Ok(())
        }
    }
    pub fn bounded<T: 'static>(_n: usize) -> (Sender<T>, Receiver<T>) {
        let c: &'static Chan<T> = Box::leak(Box::new(Chan {
            q: UnsafeCell::new(core::array::from_fn(|_| None)),
            sent: Cell::new(0),
            recvd: Cell::new(0),
            on_send: Cell::new(None),
        }));
        (Sender { c }, Receiver { c })
    }
    impl<T> Sender<T> {
        pub fn send_async(&self, v: T) -> Result<(), Closed> {
            let c = unsafe { &*self.c };
            let n = c.sent.get();
            assert!(n < QCAP, "vcoll: harness queue capacity");
            if let Some(f) = c.on_send.get() {
                f(&v);
            }
            unsafe { (*c.q.get())[n] = Some(v) };
            c.sent.set(n + 1);
            Ok(())
        }
        pub fn chan(&self) -> &Chan<T> {
            unsafe { &*self.c }
        }
    }
    impl<T> Receiver<T> {
        /// FIFO, exactly once; a fresh arbitrary wall-clock reading is installed before each event
        pub fn recv_async(&self) -> Result<T, Closed> {
            let c = unsafe { &*self.c };
            let n = c.recvd.get();
            if n >= c.sent.get() {
                return Err(Closed);
            }
            c.recvd.set(n + 1);
            super::next_wall();
            unsafe { (*c.q.get())[n].take().ok_or(Closed) }
        }
    }
}

pub mod tokio {
    pub mod time {
        pub fn sleep(_d: std::time::Duration) {}
    }
}

pub static mut WALLS: [(u64, u8); 2] = [(0, 0); 2];
pub static mut WALL_N: usize = 0;
/// (seconds, fraction) of the clock state the actor starts from (set by the harness)
pub static mut START: (u64, u8) = (0, 0);
/// install a fresh arbitrary wall reading (any value: stalled, backwards, ahead)
pub fn next_wall() {
    #[cfg(kani)]
    unsafe {
        let s: u64 = kani::any();
        let f: u8 = kani::any();
        kani::assume(s <= TIMESTAMP_MAX && f < 250);
        // actor precondition (otherwise send() refuses and the actor's expect() fires): the clock is within
        // MAX_CLOCK_DRIFT of the first reading and the wall clock does not run backwards between the
        // two events (it may stall)
        if WALL_N == 0 {
            kani::assume((START.0, START.1) <= (s + 4_100, f));
        } else if WALL_N == 1 {
            kani::assume((s, f) >= WALLS[0]);
        }
        if WALL_N < 2 {
            WALLS[WALL_N] = (s, f);
        }
        WALL_N += 1;
        verif_clock::set(Some(Duration::from_secs(s) + Duration::from_millis(f as u64 * 4)));
    }
}
