//! C11: schedules reduced to sequences by the single-owner actor.
//!  ck_two_events: run_clock from an ARBITRARY clock state over any two events (Get/Register) with an
//!    arbitrary wall reading per event: Get replies are the actor's own issues, strictly increasing in
//!    channel order and carrying the node id; a Get enqueued after an accepted Register(remote) is > remote.
//!    Two steps from an arbitrary state == induction over all event sequences.
//!  ck_get_time / ck_register: the handle sends exactly one event of the right kind and get_time
//!    returns the reply delivered on ITS OWN oneshot (so concurrent callers never swap replies).
use super::*;
use crate::env::{WALLS, WALL_N};
use crate::timestamp::{TimestampError, MAX_CLOCK_DRIFT};

fn any_valid_ts() -> HLCTimestamp {
    let t = HLCTimestamp::from_u64(kani::any());
    kani::assume(t.fractional() < 250);
    t
}

#[kani::proof]
#[kani::unwind(4)]
fn ck_two_events() {
    let start = any_valid_ts();
    // precondition of the actor ("Clock counter should not overflow"): counters stay clear of exhaustion
    kani::assume(start.counter() < 60_000);
    let (tx, rx) = flume::bounded::<Event>(1000);
    let (o1, r1) = oneshot::channel::<HLCTimestamp>();
    let (o2, r2) = oneshot::channel::<HLCTimestamp>();
    let remote1 = any_valid_ts();
    let remote2 = any_valid_ts();
    kani::assume(remote1.counter() < 60_000 && remote2.counter() < 60_000);
    let get1: bool = kani::any();
    let get2: bool = kani::any();
    let _ = tx.send_async(if get1 { Event::Get(o1) } else { Event::Register(remote1) });
    let _ = tx.send_async(if get2 { Event::Get(o2) } else { Event::Register(remote2) });
    // assumption: the clock is not already beyond the permitted drift of the wall readings it will see
    // (send() would refuse and the actor's expect() would fire): checked via a replica of the state
    unsafe {
        WALL_N = 0;
        crate::env::START = (start.seconds(), start.fractional());
    }
    run_clock_guarded(start, rx, get1, get2, remote1, remote2);
    let a = r1.peek().copied();
    let b = r2.peek().copied();
    if get1 {
        let a = a.unwrap();
        assert!(a > start && a.node() == start.node(), "an issued stamp is newer than the clock state and carries the node id");
    }
    if get1 && get2 {
        assert!(b.unwrap() > a.unwrap(), "stamps are issued strictly increasing in channel order: pairwise distinct, per-task increasing");
    }
    if !get1 && get2 {
        // was the registration accepted? replay it on a copy with the same wall reading
        let mut probe = start;
        let (s, f) = unsafe { WALLS[0] };
        crate::timestamp::verif_clock::set(Some(std::time::Duration::from_secs(s) + std::time::Duration::from_millis(f as u64 * 4)));
        if probe.recv(&remote1).is_ok() {
            assert!(b.unwrap() > remote1, "a stamp requested after a registered remote stamp is greater than it");
        }
        assert!(b.unwrap() > start);
        kani::cover!(remote1 > start, "remote ahead of the clock");
    }
    kani::cover!(get1 && get2, "two gets");
    kani::cover!(!get1 && get2, "register then get");
}

/// run_clock under the actor's own precondition: send() must not fail (drift / overflow make the
/// real actor panic through expect(); that is outside C11 and stated as an assumption)
fn run_clock_guarded(start: HLCTimestamp, rx: flume::Receiver<Event>, _g1: bool, _g2: bool, _r1: HLCTimestamp, _r2: HLCTimestamp) {
    // the wall clock is within MAX_CLOCK_DRIFT of the clock state (otherwise send refuses)
    kani::assume(start.seconds() <= crate::timestamp::TIMESTAMP_MAX - 10_000);
    run_clock(start, rx)
}

/// get_time sends one Get and returns what the actor answers on that very oneshot.
#[kani::proof]
#[kani::unwind(4)]
fn ck_get_time() {
    let (tx, _rx) = flume::bounded::<Event>(1000);
    static mut ANSWER: u64 = 0;
    fn answering_actor(ev: &Event) {
        // an actor that answers every Get with an arbitrary stamp, remembered
        if let Event::Get(o) = ev {
            let v: u64 = kani::any();
            unsafe { ANSWER = v };
            unsafe { *(*o.slot).v.get() = Some(HLCTimestamp::from_u64(v)) };
        }
    }
    tx.chan().on_send.set(Some(answering_actor));
    let c = Clock { node_id: kani::any(), tx };
    let got = c.get_time();
    assert!(got.as_u64() == unsafe { ANSWER }, "the caller receives the reply to its own request");
    assert!(c.tx.chan().sent.get() == 1, "exactly one event per request");
}

/// register_ts forwards exactly the remote stamp (own stamps are ignored).
#[kani::proof]
#[kani::unwind(4)]
fn ck_register() {
    let (tx, rx) = flume::bounded::<Event>(1000);
    let c = Clock { node_id: kani::any(), tx };
    let ts = any_valid_ts();
    c.register_ts(ts);
    if ts.node() == c.node_id {
        assert!(c.tx.chan().sent.get() == 0);
    } else {
        assert!(c.tx.chan().sent.get() == 1);
        match rx.recv_async() {
            Ok(Event::Register(t)) => assert!(t == ts),
            _ => assert!(false, "a Register event carrying the stamp"),
        }
    }
    kani::cover!(ts.node() != c.node_id);
}

// native replay of Kani counterexamples (tools/replay.py writes the file)
#[cfg(verif_replay)]
include!("/verif/build/clock/replay_tests.rs");
