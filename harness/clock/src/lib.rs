//! Unit `clock` (C11): the node clock actor (datacake-node/src/clock.rs) reduced to sequences:
//! a single task owns the HLCTimestamp and handles events one at a time in channel order.
#![allow(dead_code, unused_imports)]

#[path = "/repo/datacake-crdt/src/timestamp.rs"]
pub mod timestamp;
pub use timestamp::HLCTimestamp;
pub type NodeId = u8;

pub mod env;

#[path = "/verif/build/clock/gen/clock.rs"]
pub mod clock;
