// ---- prelude for clock.rs slices ---------------------------------------------------------------
use std::time::Duration;

use crate::env::{flume, oneshot, tokio};
use crate::HLCTimestamp;
use crate::NodeId;
// ---- end of prelude ---------------------------------------------------------------------------
