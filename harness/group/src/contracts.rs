//! C07: the state a restarted node hands to each keyspace actor is exactly what storage holds.
//! C18: every write-locked section on the group map preserves existing bindings and the caller
//!      gets the bound mailbox (rely/guarantee reduction of the schedule quantifier).
use super::*;
use vcoll::{Havoc, VKey};

type Group = KeyspaceGroup<GhostStore>;

fn reset_ghost() {
    unsafe {
        SPAWNED = Some(Vec::new());
        NEXT_ID = 1000;
        ENV_STEP = None;
    }
}

// ------------------------------------------------------------------ C07, callee: load_states (class B: <= 2 states)
/// load_states(states): for every (name, state) of the iterator exactly one actor is spawned with
/// exactly that state, and the name is bound to that actor's mailbox (and to a change counter).
#[kani::proof]
#[kani::unwind(4)]
fn gr_load_states() {
    reset_ghost();
    let g: Group = KeyspaceGroup {
        clock: Clock,
        storage: Arc::new(GhostStore::empty()),
        keyspace_timestamps: Default::default(),
        group: Default::default(),
    };
    let n: usize = kani::any();
    kani::assume(n <= 2);
    let ops: [RecOp; 2] = [
        RecOp { key: kani::any(), stamp: kani::any(), is_delete: kani::any(), source: 0 },
        RecOp { key: kani::any(), stamp: kani::any(), is_delete: kani::any(), source: 0 },
    ];
    let mut v: Vec<(Cow<'static, str>, OrSWotSet<NUM_SOURCES>)> = Vec::new();
    let mut i = 0;
    while i < 2 {
        if i < n {
            let mut st: OrSWotSet<NUM_SOURCES> = OrSWotSet::default();
            st.ops.push(ops[i]);
            v.push((Cow::Borrowed(KS_STRS[i]), st));
        }
        i += 1;
    }
    g.load_states(v.into_iter());
    let spawned = unsafe { SPAWNED.as_ref().unwrap() };
    assert!(spawned.len() == n, "one actor per state");
    let mut i = 0;
    while i < 2 {
        if i < n {
            let mut found = 0;
            for sp in spawned.iter() {
                if sp.name == KS_STRS[i].vkey() {
                    found += 1;
                    assert!(sp.state.ops.len() == 1 && sp.state.ops[0] == ops[i], "the actor gets exactly the state built for its keyspace");
                    let bound = g.group.read().get(KS_STRS[i]).map(|m| m.id);
                    assert!(bound == Some(sp.id), "the keyspace name is bound to that actor");
                    assert!(g.keyspace_timestamps.read().get(KS_STRS[i]).is_some(), "and has a change counter");
                }
            }
            assert!(found == 1);
        } else {
            assert!(g.group.read().get(KS_STRS[i]).is_none());
        }
        i += 1;
    }
    kani::cover!(n == 2, "two keyspaces");
}

// ------------------------------------------------------------------ C18 (class P under lock atomicity)
// The group map is a havoc map (any existing bindings). At each former await point between the
// read-locked lookup and the write-locked insert, an environment step may run: another task of the
// node completing its own first use of the same name (it only ever ADDS a binding for an unbound name:
// the rely, which is the guarantee proved here for this task).
static mut C18_MAP: *const RwLock<KeyspaceMap<GhostStore>> = core::ptr::null();
static mut C18_FIRST: Option<u64> = None;

fn c18_env_step() {
    unsafe {
        if bool::havoc() {
            let map = (*C18_MAP).write();
            if map.get("ks").is_none() {
                let other = ActorMailbox::<KeyspaceActor<GhostStore>>::havoc();
                kani::assume(other.id < 1000); // distinct from mailboxes this task spawns
                if C18_FIRST.is_none() {
                    C18_FIRST = Some(other.id);
                }
                map.insert(Cow::Borrowed("ks"), other);
            }
        }
    }
}

#[kani::proof]
#[kani::unwind(4)]
fn gr_binding_preserved() {
    reset_ghost();
    let g: Group = KeyspaceGroup {
        clock: Clock,
        storage: Arc::new(GhostStore { n_ks: 0, n_rows: [0; MAX_KS], rows: [[(0, HLCTimestamp::from_u64(0), false); MAX_ROWS]; MAX_KS], fail_list: false, fail_rows: [false; MAX_KS] }),
        keyspace_timestamps: Default::default(),
        group: Arc::new(RwLock::new(BTreeMap::arbitrary_unbounded())),
    };
    let pre = g.group.read().get("ks").map(|m| m.id);
    unsafe {
        C18_MAP = &*g.group as *const _;
        C18_FIRST = pre;
        ENV_STEP = Some(c18_env_step);
    }
    let r = g.get_or_create_keyspace("ks");
    unsafe {
        ENV_STEP = None;
    }
    let post = g.group.read().get("ks").map(|m| m.id);
    let first = unsafe { C18_FIRST };
    assert!(post == Some(r.id), "the caller gets the mailbox the name is bound to");
    if let Some(f) = first {
        assert!(post == Some(f), "a binding, once set, is never replaced (one state per keyspace)");
    }
    kani::cover!(pre.is_none() && first.is_some(), "another task bound the name between the lookup and the insert");
    kani::cover!(pre.is_none() && first.is_none(), "this task creates the keyspace");
    kani::cover!(pre.is_some(), "already bound");
}

// native replay of Kani counterexamples (tools/replay.py writes the file)
#[cfg(verif_replay)]
include!("/verif/build/group/replay_tests.rs");
