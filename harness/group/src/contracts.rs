//! C07: the state a restarted node hands to each keyspace actor is exactly what storage holds.
//! C18: every write-locked section on the group map preserves existing bindings and the caller
//!      gets the bound mailbox (rely/guarantee reduction of the schedule quantifier).
use super::*;
use crate::kernels::*;
use vcoll::{Havoc, VKey};

type Group = KeyspaceGroup<GhostStore>;

fn reset_ghost() {
    unsafe {
        SPAWNED = Some(Vec::new());
        NEXT_ID = 1000;
        ENV_STEP = None;
    }
}

// ------------------------------------------------------------------ C07 (class B: 2 keyspaces x 3 rows)
fn any_store() -> GhostStore {
    let mut st = GhostStore {
        n_ks: kani::any(),
        n_rows: kani::any(),
        rows: [[(0, HLCTimestamp::from_u64(0), false); MAX_ROWS]; MAX_KS],
        fail_list: kani::any(),
        fail_rows: kani::any(),
    };
    kani::assume(st.n_ks <= MAX_KS);
    let mut i = 0;
    while i < MAX_KS {
        kani::assume(st.n_rows[i] <= MAX_ROWS);
        let mut j = 0;
        while j < MAX_ROWS {
            st.rows[i][j] = (kani::any(), HLCTimestamp::havoc(), kani::any());
            j += 1;
        }
        // one metadata row per id; distinct stamps
        let r = &st.rows[i];
        kani::assume(r[0].0 != r[1].0);
        kani::assume(r[0].1 != r[1].1);
        i += 1;
    }
    st
}

#[kani::proof]
#[kani::unwind(4)]
fn gr_load_all() {
    reset_ghost();
    let g: Group = KeyspaceGroup {
        clock: Clock,
        storage: Arc::new(any_store()),
        keyspace_timestamps: Default::default(),
        group: Default::default(),
    };
    let r = g.load_states_from_storage();
    let st: &GhostStore = &g.storage;
    let spawned = unsafe { SPAWNED.as_ref().unwrap() };
    if r.is_err() {
        assert!(spawned.len() == 0, "a failed load starts no actor on partial data");
        kani::cover!(st.n_ks == 2 && !st.fail_list && st.fail_rows[1], "failure while reading the second keyspace");
        return;
    }
    assert!(spawned.len() == st.n_ks, "one state per keyspace storage lists");
    let mut i = 0;
    while i < MAX_KS {
        if i < st.n_ks {
            let name = KS_NAMES[i].vkey();
            // the state handed to the actor of keyspace i
            let mut found = 0;
            for sp in spawned.iter() {
                if sp.name == name {
                    found += 1;
                    let mut j = 0;
                    let mut live = 0;
                    let mut dead = 0;
                    while j < MAX_ROWS {
                        if j < st.n_rows[i] {
                            let (id, ts, tomb) = st.rows[i][j];
                            let want = if tomb { Slot::Dead(ts.as_u64()) } else { Slot::Live(ts.as_u64()) };
                            assert!(sp.state.slot(id) == want, "every row lands with its own timestamp and kind");
                            if tomb {
                                dead += 1;
                            } else {
                                live += 1;
                            }
                        }
                        j += 1;
                    }
                    assert!(sp.state.entries.len() == live && sp.state.dead.len() == dead, "and nothing else is in the rebuilt set");
                    let bound = g.group.read().get(KS_NAMES[i]).map(|m| m.id);
                    assert!(bound == Some(sp.id), "the keyspace name is bound to that actor");
                }
            }
            assert!(found == 1);
        }
        i += 1;
    }
    kani::cover!(st.n_ks == 2 && st.n_rows[0] == 2 && st.n_rows[1] == 2, "two keyspaces, four rows");
    kani::cover!(st.n_ks == 1 && st.n_rows[0] == 2 && st.rows[0][0].2 && !st.rows[0][1].2 && st.rows[0][0].1 > st.rows[0][1].1, "tombstone newer than a live row, listed first");
}

// ------------------------------------------------------------------ C18 (class P under lock atomicity)
// The group map is a havoc map (any existing bindings). At each former await point between the
// read-locked lookup and the write-locked insert, an environment step may run: another task of the
// node completing its own first use of the same name (it only ever ADDS a binding for an unbound name:
// the rely, which is the guarantee proved here for this task).
static mut C18_MAP: *const RwLock<KeyspaceMap<GhostStore>> = core::ptr::null();
static mut C18_FIRST: Option<u64> = None;

fn c18_env_step() {
    unsafe {
        if bool::havoc() {
            let map = (*C18_MAP).write();
            if map.get("ks").is_none() {
                let other = ActorMailbox::<KeyspaceActor<GhostStore>>::havoc();
                kani::assume(other.id < 1000); // distinct from mailboxes this task spawns
                if C18_FIRST.is_none() {
                    C18_FIRST = Some(other.id);
                }
                map.insert(Cow::Borrowed("ks"), other);
            }
        }
    }
}

#[kani::proof]
#[kani::unwind(4)]
fn gr_binding_preserved() {
    reset_ghost();
    let g: Group = KeyspaceGroup {
        clock: Clock,
        storage: Arc::new(GhostStore { n_ks: 0, n_rows: [0; MAX_KS], rows: [[(0, HLCTimestamp::from_u64(0), false); MAX_ROWS]; MAX_KS], fail_list: false, fail_rows: [false; MAX_KS] }),
        keyspace_timestamps: Default::default(),
        group: Arc::new(RwLock::new(BTreeMap::arbitrary_unbounded())),
    };
    let pre = g.group.read().get("ks").map(|m| m.id);
    unsafe {
        C18_MAP = &*g.group as *const _;
        C18_FIRST = pre;
        ENV_STEP = Some(c18_env_step);
    }
    let r = g.get_or_create_keyspace("ks");
    unsafe {
        ENV_STEP = None;
    }
    let post = g.group.read().get("ks").map(|m| m.id);
    let first = unsafe { C18_FIRST };
    assert!(post == Some(r.id), "the caller gets the mailbox the name is bound to");
    if let Some(f) = first {
        assert!(post == Some(f), "a binding, once set, is never replaced (one state per keyspace)");
    }
    kani::cover!(pre.is_none() && first.is_some(), "another task bound the name between the lookup and the insert");
    kani::cover!(pre.is_none() && first.is_none(), "this task creates the keyspace");
    kani::cover!(pre.is_some(), "already bound");
}

// native replay of Kani counterexamples (tools/replay.py writes the file)
#[cfg(verif_replay)]
include!("/verif/build/group/replay_tests.rs");
