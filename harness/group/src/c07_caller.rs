//! C07, caller: load_states_from_storage checked against the CONTRACT of load_states (a stub that
//! records the states it is handed -- modular verification: the callee's own contract is gr_load_states).
use super::*;
use vcoll::{Havoc, VKey};

type Group = KeyspaceGroup<GhostStore>;

// ------------------------------------------------------------------ C07 (class B: 2 keyspaces x 3 rows)
fn any_store(n_ks: usize, n_rows: usize, fail_list: bool, fail_last: bool) -> GhostStore {
    let mut st = GhostStore {
        n_ks,
        n_rows: [n_rows; MAX_KS],
        rows: [[(0, HLCTimestamp::from_u64(0), false); MAX_ROWS]; MAX_KS],
        fail_list,
        fail_rows: [false; MAX_KS],
    };
    if fail_last && n_ks > 0 {
        st.fail_rows[n_ks - 1] = true;
    }
    let mut i = 0;
    while i < MAX_KS {
        let mut j = 0;
        while j < MAX_ROWS {
            st.rows[i][j] = (kani::any(), HLCTimestamp::havoc(), kani::any());
            j += 1;
        }
        // one metadata row per id (stamps may coincide: a bulk write stamps the whole batch once)
        let r = &st.rows[i];
        kani::assume(r[0].0 != r[1].0);
        i += 1;
    }
    st
}

/// counts and failure points are CONCRETE per harness (row contents -- ids, stamps, tombstone flags -- symbolic)
/// what the run exhibited, for the per-harness vacuity covers
struct Outcome {
    ok: bool,
    tomb_first: bool,
    same_ts: bool,
}
macro_rules! load_harness {
    ($name:ident, $ks:expr, $rows:expr, $fl:expr, $flast:expr, |$o:ident| [$($cov:expr),*]) => {
        #[kani::proof]
        #[kani::unwind(5)]
        fn $name() {
            let $o = load_contract($ks, $rows, $fl, $flast);
            $( kani::cover!($cov); )*
        }
    };
}
load_harness!(gr_load_1x2, 1, 2, false, false, |o| [o.ok, o.ok && o.tomb_first, o.ok && o.same_ts]);
load_harness!(gr_load_2x1, 2, 1, false, false, |o| [o.ok]);
load_harness!(gr_load_2x2, 2, 2, false, false, |o| [o.ok, o.ok && o.tomb_first, o.ok && o.same_ts]);
load_harness!(gr_load_1x1, 1, 1, false, false, |o| [o.ok]);
load_harness!(gr_load_0, 0, 0, false, false, |o| [o.ok]);
load_harness!(gr_load_fail_list, 2, 1, true, false, |o| [!o.ok]);
load_harness!(gr_load_fail_rows, 2, 1, false, true, |o| [!o.ok]);
fn load_contract(max_ks: usize, max_rows: usize, fail_list: bool, fail_last: bool) -> Outcome {
    unsafe { LOADED = Some(vcoll::vvec::VVec::new()) };
    let g: Group = KeyspaceGroup {
        clock: Clock,
        storage: Arc::new(any_store(max_ks, max_rows, fail_list, fail_last)),
        keyspace_timestamps: Default::default(),
        group: Default::default(),
    };
    let r = g.load_states_from_storage();
    let st: &GhostStore = &g.storage;
    let spawned = unsafe { LOADED.as_ref().unwrap() };
    if r.is_err() {
        assert!(spawned.len() == 0, "a failed load hands no partial data to load_states");
        assert!(fail_list || fail_last, "a load only fails when storage fails");
        return Outcome { ok: false, tomb_first: false, same_ts: false };
    }
    assert!(spawned.len() == st.n_ks, "one state per keyspace storage lists is handed to load_states");
    // counts are concrete per harness: index directly (a generic nested search over the recorded states cost
    // 1.8 M symbolic-execution steps; the direct form states the same contract)
    let mut i = 0;
    while i < max_ks {
        let name = KS_NAMES[i].0;
        // the state handed to the actor of keyspace i: exactly one of the recorded states carries its name
        let mut at = usize::MAX;
        let mut found = 0;
        let mut s = 0;
        while s < max_ks {
            if spawned[s].name == name {
                found += 1;
                at = s;
            }
            s += 1;
        }
        assert!(found == 1, "exactly one state per listed keyspace");
        let ops = &spawned[at].state.ops;
        assert!(ops.len() == max_rows, "nothing but the stored rows is replayed");
        let want = |j: usize| {
            let (id, ts, tomb) = st.rows[i][j];
            RecOp { key: id, stamp: ts.as_u64(), is_delete: tomb, source: 0 }
        };
        if max_rows == 1 {
            assert!(ops[0] == want(0), "every stored row is replayed into the rebuilt set exactly once, with its own timestamp and kind");
        }
        if max_rows == 2 {
            let (a, b) = (ops[0], ops[1]);
            let (w0, w1) = (want(0), want(1));
            assert!((a == w0 && b == w1) || (a == w1 && b == w0), "every stored row is replayed into the rebuilt set exactly once, with its own timestamp and kind");
            assert!(a.stamp <= b.stamp, "rows are replayed in timestamp order");
        }
        i += 1;
    }
    assert!(!fail_list && !fail_last, "storage failures are reported");
    // "tombstone newer than a live row, listed first" / "two rows sharing one timestamp (bulk write)"
    let two = max_rows == 2 && max_ks >= 1;
    Outcome {
        ok: true,
        tomb_first: two && st.rows[0][0].2 && !st.rows[0][1].2 && st.rows[0][0].1 > st.rows[0][1].1,
        same_ts: two && st.rows[0][0].1 == st.rows[0][1].1,
    }
}

// native replay of Kani counterexamples (tools/replay.py writes the file)
#[cfg(verif_replay)]
include!("/verif/build/group_caller/replay_tests.rs");
