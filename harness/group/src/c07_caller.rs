//! C07, caller: load_states_from_storage checked against the CONTRACT of load_states (a stub that
//! records the states it is handed -- modular verification: the callee's own contract is gr_load_states).
use super::*;
use vcoll::{Havoc, VKey};

type Group = KeyspaceGroup<GhostStore>;

// ------------------------------------------------------------------ C07 (class B: 2 keyspaces x 3 rows)
fn any_store(n_ks: usize, n_rows: usize, fail_list: bool, fail_last: bool) -> GhostStore {
    let mut st = GhostStore {
        n_ks,
        n_rows: [n_rows; MAX_KS],
        rows: [[(0, HLCTimestamp::from_u64(0), false); MAX_ROWS]; MAX_KS],
        fail_list,
        fail_rows: [false; MAX_KS],
    };
    if fail_last && n_ks > 0 {
        st.fail_rows[n_ks - 1] = true;
    }
    let mut i = 0;
    while i < MAX_KS {
        let mut j = 0;
        while j < MAX_ROWS {
            st.rows[i][j] = (kani::any(), HLCTimestamp::havoc(), kani::any());
            j += 1;
        }
        // one metadata row per id (stamps may coincide: a bulk write stamps the whole batch once)
        let r = &st.rows[i];
        kani::assume(r[0].0 != r[1].0);
        i += 1;
    }
    st
}

/// counts and failure points are CONCRETE per harness (row contents -- ids, stamps, tombstone flags -- symbolic)
macro_rules! load_harness {
    ($name:ident, $ks:expr, $rows:expr, $fl:expr, $flast:expr) => {
        #[kani::proof]
        #[kani::unwind(12)]
        fn $name() {
            load_contract($ks, $rows, $fl, $flast);
        }
    };
}
load_harness!(gr_load_1x2, 1, 2, false, false);
load_harness!(gr_load_2x1, 2, 1, false, false);
load_harness!(gr_load_2x2, 2, 2, false, false);
load_harness!(gr_load_1x1, 1, 1, false, false);
load_harness!(gr_load_0, 0, 0, false, false);
load_harness!(gr_load_fail_list, 2, 1, true, false);
load_harness!(gr_load_fail_rows, 2, 1, false, true);
fn load_contract(max_ks: usize, max_rows: usize, fail_list: bool, fail_last: bool) {
    unsafe { LOADED = Some(vcoll::vvec::VVec::new()) };
    let g: Group = KeyspaceGroup {
        clock: Clock,
        storage: Arc::new(any_store(max_ks, max_rows, fail_list, fail_last)),
        keyspace_timestamps: Default::default(),
        group: Default::default(),
    };
    let r = g.load_states_from_storage();
    let st: &GhostStore = &g.storage;
    let spawned = unsafe { LOADED.as_ref().unwrap() };
    if r.is_err() {
        assert!(spawned.len() == 0, "a failed load hands no partial data to load_states");
        assert!(fail_list || fail_last, "a load only fails when storage fails");
        kani::cover!(true, "failed load");
        return;
    }
    assert!(spawned.len() == st.n_ks, "one state per keyspace storage lists is handed to load_states");
    let mut i = 0;
    while i < MAX_KS {
        if i < st.n_ks {
            let name = KS_NAMES[i].vkey();
            // the state handed to the actor of keyspace i
            let mut found = 0;
            for sp in spawned.iter() {
                if sp.name == name {
                    found += 1;
                    // every stored row is replayed exactly once through source 0, with its stamp and kind ...
                    let mut j = 0;
                    while j < MAX_ROWS {
                        if j < st.n_rows[i] {
                            let (id, ts, tomb) = st.rows[i][j];
                            let want = RecOp { key: id, stamp: ts.as_u64(), is_delete: tomb, source: 0 };
                            let mut c = 0;
                            for op in sp.state.ops.iter() {
                                if *op == want {
                                    c += 1;
                                }
                            }
                            assert!(c == 1, "every stored row is replayed into the rebuilt set exactly once, with its own timestamp and kind");
                        }
                        j += 1;
                    }
                    // ... nothing else is, and the replay is in timestamp order
                    assert!(sp.state.ops.len() == st.n_rows[i], "nothing but the stored rows is replayed");
                    if sp.state.ops.len() == 2 {
                        assert!(sp.state.ops[0].stamp <= sp.state.ops[1].stamp, "rows are replayed in timestamp order");
                    }
                }
            }
            assert!(found == 1);
        }
        i += 1;
    }
    assert!(!fail_list && !fail_last, "storage failures are reported");
    kani::cover!(true, "successful load");
    if max_rows == 2 {
        kani::cover!(st.n_ks == 1 && st.n_rows[0] == 2 && st.rows[0][0].2 && !st.rows[0][1].2 && st.rows[0][0].1 > st.rows[0][1].1, "tombstone newer than a live row, listed first");
        kani::cover!(st.n_ks == 1 && st.n_rows[0] == 2 && st.rows[0][0].1 == st.rows[0][1].1, "two rows sharing one timestamp (bulk write)");
    }
}


// native replay of Kani counterexamples (tools/replay.py writes the file)
#[cfg(verif_replay)]
include!("/verif/build/group_caller/replay_tests.rs");
