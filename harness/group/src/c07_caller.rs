//! C07, caller: load_states_from_storage checked against the CONTRACT of load_states (a stub that
//! records the states it is handed -- modular verification: the callee's own contract is gr_load_states).
use super::*;
use vcoll::{Havoc, VKey};

type Group = KeyspaceGroup<GhostStore>;

// ------------------------------------------------------------------ C07 (class B: 2 keyspaces x 3 rows)
fn any_store(max_ks: usize, max_rows: usize) -> GhostStore {
    let mut st = GhostStore {
        n_ks: kani::any(),
        n_rows: kani::any(),
        rows: [[(0, HLCTimestamp::from_u64(0), false); MAX_ROWS]; MAX_KS],
        fail_list: kani::any(),
        fail_rows: kani::any(),
    };
    kani::assume(st.n_ks <= max_ks);
    let mut i = 0;
    while i < MAX_KS {
        kani::assume(st.n_rows[i] <= max_rows);
        let mut j = 0;
        while j < MAX_ROWS {
            st.rows[i][j] = (kani::any(), HLCTimestamp::havoc(), kani::any());
            j += 1;
        }
        // one metadata row per id (stamps may coincide: a bulk write stamps the whole batch once)
        let r = &st.rows[i];
        kani::assume(r[0].0 != r[1].0);
        i += 1;
    }
    st
}

/// one keyspace, up to two rows (ordering, coinciding stamps, tombstones)
#[kani::proof]
#[kani::unwind(4)]
fn gr_load_rows() {
    load_contract(1, 2);
}
/// two keyspaces, up to one row each (rows never leak into another keyspace; failure while reading the second)
#[kani::proof]
#[kani::unwind(4)]
fn gr_load_keyspaces() {
    load_contract(2, 1);
}
fn load_contract(max_ks: usize, max_rows: usize) {
    unsafe { LOADED = Some(Vec::new()) };
    let g: Group = KeyspaceGroup {
        clock: Clock,
        storage: Arc::new(any_store(max_ks, max_rows)),
        keyspace_timestamps: Default::default(),
        group: Default::default(),
    };
    let r = g.load_states_from_storage();
    let st: &GhostStore = &g.storage;
    let spawned = unsafe { LOADED.as_ref().unwrap() };
    if r.is_err() {
        assert!(spawned.len() == 0, "a failed load hands no partial data to load_states");
        kani::cover!(st.n_ks == max_ks && !st.fail_list && st.fail_rows[max_ks - 1], "failure while reading the last keyspace");
        return;
    }
    assert!(spawned.len() == st.n_ks, "one state per keyspace storage lists is handed to load_states");
    let mut i = 0;
    while i < MAX_KS {
        if i < st.n_ks {
            let name = KS_NAMES[i].vkey();
            // the state handed to the actor of keyspace i
            let mut found = 0;
            for sp in spawned.iter() {
                if sp.name == name {
                    found += 1;
                    // every stored row is replayed exactly once through source 0, with its stamp and kind ...
                    let mut j = 0;
                    while j < MAX_ROWS {
                        if j < st.n_rows[i] {
                            let (id, ts, tomb) = st.rows[i][j];
                            let want = RecOp { key: id, stamp: ts.as_u64(), is_delete: tomb, source: 0 };
                            let mut c = 0;
                            for op in sp.state.ops.iter() {
                                if *op == want {
                                    c += 1;
                                }
                            }
                            assert!(c == 1, "every stored row is replayed into the rebuilt set exactly once, with its own timestamp and kind");
                        }
                        j += 1;
                    }
                    // ... nothing else is, and the replay is in timestamp order
                    assert!(sp.state.ops.len() == st.n_rows[i], "nothing but the stored rows is replayed");
                    if sp.state.ops.len() == 2 {
                        assert!(sp.state.ops[0].stamp <= sp.state.ops[1].stamp, "rows are replayed in timestamp order");
                    }
                }
            }
            assert!(found == 1);
        }
        i += 1;
    }
    kani::cover!(st.n_ks == max_ks && st.n_rows[0] == max_rows && st.n_rows[max_ks - 1] == max_rows, "largest storage content inside the bound");
    if max_rows == 2 {
        kani::cover!(st.n_ks == 1 && st.n_rows[0] == 2 && st.rows[0][0].2 && !st.rows[0][1].2 && st.rows[0][0].1 > st.rows[0][1].1, "tombstone newer than a live row, listed first");
        kani::cover!(st.n_ks == 1 && st.n_rows[0] == 2 && st.rows[0][0].1 == st.rows[0][1].1, "two rows sharing one timestamp (bulk write)");
    }
}


// native replay of Kani counterexamples (tools/replay.py writes the file)
#[cfg(verif_replay)]
include!("/verif/build/group_caller/replay_tests.rs");
