// ---- prelude for group.rs slices ---------------------------------------------------------------
use std::borrow::Cow;
use std::ops::{Deref, DerefMut};

use vcoll::sync::{Arc, AtomicCell, RwLock};
// REAL std collections for this caller unit: keyspace names (the only map keys) and all counts are
// concrete per harness, so CBMC executes the std code by constant propagation.
use std::collections::BTreeMap;

use crate::env::*;

#[allow(unused_macros)]
macro_rules! info {
    ($($t:tt)*) => {};
}

/// mirror of `pub struct KeyspaceTimestamps(pub BTreeMap<..>)` with its Deref/DerefMut impls
#[derive(Default)]
pub struct KeyspaceTimestamps(pub BTreeMap<Cow<'static, str>, Arc<AtomicCell<HLCTimestamp>>>);
impl Deref for KeyspaceTimestamps {
    type Target = BTreeMap<Cow<'static, str>, Arc<AtomicCell<HLCTimestamp>>>;
    fn deref(&self) -> &Self::Target {
        &self.0
    }
}
impl DerefMut for KeyspaceTimestamps {
    fn deref_mut(&mut self) -> &mut Self::Target {
        &mut self.0
    }
}

/// CONTRACT STUB of `KeyspaceGroup::load_states` (its body is verified separately: gr_load_states):
/// records every (name, state) pair it is handed, in order.
impl<S> KeyspaceGroup<S>
where
    S: Storage,
{
    pub fn load_states(
        &self,
        states: impl Iterator<Item = (impl Into<Cow<'static, str>>, OrSWotSet<NUM_SOURCES>)>,
    ) {
        use vcoll::VKey;
        for (name, state) in states {
            let name: Cow<'static, str> = name.into();
            unsafe {
                if LOADED.is_none() {
                    LOADED = Some(vcoll::vvec::VVec::new());
                }
                LOADED.as_mut().unwrap().push(Loaded { name: name.vkey(), state });
            }
        }
    }
}
// ---- end of prelude ---------------------------------------------------------------------------
