// ---- prelude for group.rs slices ---------------------------------------------------------------
// keyspace names are opaque identifiers in this unit (see env.rs: KsName / KsCow)
use crate::env::KsCow as Cow;
use std::ops::{Deref, DerefMut};

use vcoll::sync::{Arc, AtomicCell, RwLock};
use vcoll::BTreeMap;
// `Vec` (the collected metadata rows, sorted with sort_by_key) is the fixed-capacity vcoll::VVec with a stable insertion sort:
// the std sort (driftsort/smallsort over raw pointers) on a Vec whose length CBMC does not constant-propagate dominated symbolic execution.
#[allow(unused_imports)]
use vcoll::vvec::VVec as Vec;

use crate::env::*;
// timers are immediately ready in the de-sugared text (retry / back-off loops a change may introduce must still compile)
#[allow(unused_imports)]
use std::time::Duration;
#[allow(dead_code)]
fn sleep(_d: Duration) {}

#[allow(unused_macros)]
macro_rules! info {
    ($($t:tt)*) => {};
}

/// mirror of `pub struct KeyspaceTimestamps(pub BTreeMap<..>)` with its Deref/DerefMut impls
#[derive(Default)]
pub struct KeyspaceTimestamps(pub BTreeMap<Cow<'static, str>, Arc<AtomicCell<HLCTimestamp>>>);
impl Deref for KeyspaceTimestamps {
    type Target = BTreeMap<Cow<'static, str>, Arc<AtomicCell<HLCTimestamp>>>;
    fn deref(&self) -> &Self::Target {
        &self.0
    }
}
impl DerefMut for KeyspaceTimestamps {
    fn deref_mut(&mut self) -> &mut Self::Target {
        &mut self.0
    }
}

/// CONTRACT STUB of `KeyspaceGroup::load_states` (its body is verified separately: gr_load_states):
/// records every (name, state) pair it is handed, in order.
impl<S> KeyspaceGroup<S>
where
    S: Storage,
{
    pub fn load_states(
        &self,
        states: impl Iterator<Item = (impl Into<Cow<'static, str>>, OrSWotSet<NUM_SOURCES>)>,
    ) {
        use vcoll::VKey;
        for (name, state) in states {
            let name: Cow<'static, str> = name.into();
            unsafe {
                if LOADED.is_none() {
                    LOADED = Some(vcoll::vvec::VVec::new());
                }
                LOADED.as_mut().unwrap().push(Loaded { name: name.vkey(), state });
            }
        }
    }
}
// ---- end of prelude ---------------------------------------------------------------------------
