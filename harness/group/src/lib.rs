//! Unit `group` (C07, C18): contracts on KeyspaceGroup::{load_states_from_storage, load_states,
//! get_or_create_keyspace, add_state} sliced verbatim from
//! /repo/datacake-eventual-consistency/src/keyspace/group.rs (async/await de-sugared, see slicer).
#![allow(dead_code, unused_imports)]

#[path = "/repo/datacake-crdt/src/timestamp.rs"]
pub mod timestamp;
#[path = "/verif/contracts/recset.rs"]
pub mod recset;

pub use timestamp::HLCTimestamp;

impl vcoll::Havoc for HLCTimestamp {
    #[cfg(kani)]
    fn havoc() -> Self {
        let t = HLCTimestamp::from_u64(kani::any());
        kani::assume(t.fractional() < 250);
        t
    }
    #[cfg(not(kani))]
    fn havoc() -> Self {
        unreachable!()
    }
}

impl vcoll::VKey for HLCTimestamp {
    fn vkey(&self) -> u64 {
        self.as_u64()
    }
}

pub mod env;
pub use env::spawn_keyspace;

#[path = "/verif/build/group/gen/group.rs"]
pub mod group;

/// caller-side copy: only load_states_from_storage is sliced; load_states is the contract stub in prelude_caller.rs
#[path = "/verif/build/group/gen/group_caller.rs"]
pub mod group_caller;
