//! Stand-ins for what group.rs imports (trusted, listed in evidence).
use core::marker::PhantomData;
use std::borrow::Cow;

use vcoll::sync::{Arc, AtomicCell};
use vcoll::vvec::VVec;
use vcoll::Havoc;

pub use crate::recset::{Key, OrSWotSet, RecOp};
pub use crate::timestamp::HLCTimestamp;

pub const NUM_SOURCES: usize = 2;

pub struct KeyspaceActor<S> {
    _s: PhantomData<S>,
}

/// Mailbox of a spawned keyspace actor: an identity. The state the actor was given at spawn
/// time is recorded in SPAWNED (ghost) so contracts can inspect it.
pub struct ActorMailbox<A> {
    pub id: u64,
    _a: PhantomData<A>,
}
impl<A> Clone for ActorMailbox<A> {
    fn clone(&self) -> Self {
        ActorMailbox { id: self.id, _a: PhantomData }
    }
}
impl<A> PartialEq for ActorMailbox<A> {
    fn eq(&self, o: &Self) -> bool {
        self.id == o.id
    }
}
impl<A> Havoc for ActorMailbox<A> {
    fn havoc() -> Self {
        ActorMailbox { id: u64::havoc(), _a: PhantomData }
    }
}

/// ghost record of spawn_keyspace calls: (name identity, state handed to the actor, mailbox id)
pub struct Spawned {
    pub name: u64,
    pub state: OrSWotSet<NUM_SOURCES>,
    pub id: u64,
}
pub static mut SPAWNED: Option<VVec<Spawned>> = None;
pub static mut NEXT_ID: u64 = 1000;
/// ghost record of what the load_states STUB (caller unit) was handed: (name identity, state)
pub struct Loaded {
    pub name: u64,
    pub state: OrSWotSet<NUM_SOURCES>,
}
pub static mut LOADED: Option<VVec<Loaded>> = None;

/// environment step run at every former await point (clock read, actor spawn): other tasks
/// of the node may run there. Installed by the C18 harness; a no-op otherwise.
pub static mut ENV_STEP: Option<fn()> = None;
pub fn env_step() {
    unsafe {
        if let Some(f) = ENV_STEP {
            f();
        }
    }
}

#[derive(Clone)]
pub struct Clock;
impl Clock {
    pub fn get_time(&self) -> HLCTimestamp {
        env_step();
        HLCTimestamp::havoc()
    }
}

pub fn spawn_keyspace<S>(
    name: Cow<'static, str>,
    _storage: Arc<S>,
    _clock: Clock,
    state: OrSWotSet<NUM_SOURCES>,
    _change_timestamp: Arc<AtomicCell<HLCTimestamp>>,
) -> ActorMailbox<KeyspaceActor<S>> {
    use vcoll::VKey;
    env_step();
    unsafe {
        let id = NEXT_ID;
        NEXT_ID += 1;
        if SPAWNED.is_none() {
            SPAWNED = Some(VVec::new());
        }
        SPAWNED.as_mut().unwrap().push(Spawned { name: name.vkey(), state, id });
        ActorMailbox { id, _a: PhantomData }
    }
}

pub struct Instant;
impl Instant {
    pub fn now() -> Self {
        Instant
    }
    pub fn elapsed(&self) -> u64 {
        0
    }
}

// ---- storage contract (the part group.rs uses): keyspace list + metadata rows
#[derive(Debug)]
pub struct GhostError;
pub trait Storage {
    type Error;
    type MetadataIter: Iterator<Item = (Key, HLCTimestamp, bool)>;
    fn get_keyspace_list(&self) -> Result<VVec<KsName>, Self::Error>;
    fn iter_metadata(&self, keyspace: &KsCow<'static, str>) -> Result<Self::MetadataIter, Self::Error>;
}

pub const MAX_KS: usize = 2;
pub const MAX_ROWS: usize = 2;

/// Keyspace names in the restart path are OPAQUE identifiers: `String` is replaced by `KsName` (the 64-bit order-preserving
/// identity vcoll uses for strings of <= 7 bytes) and `Cow<'static, str>` by `KsCow` in the caller unit. Measured reason: heap
/// `String`s (allocation, memcpy, memcmp, `Cow::clone`) were half of the 11.8 K byte-level operations of the composite function,
/// whose formula exhausted memory in CBMC's propositional reduction. load_states_from_storage only moves, wraps and compares names.
#[derive(Clone, Copy, PartialEq, Eq, PartialOrd, Ord, Debug)]
pub struct KsName(pub u64);
pub enum KsCow<'a, B: ?Sized + 'a> {
    Borrowed(&'a B),
    Owned(KsName),
}
impl<'a, B: ?Sized> Clone for KsCow<'a, B> {
    fn clone(&self) -> Self {
        match self {
            KsCow::Borrowed(b) => KsCow::Borrowed(*b),
            KsCow::Owned(n) => KsCow::Owned(*n),
        }
    }
}
impl<'a> vcoll::VKey for KsCow<'a, str> {
    fn vkey(&self) -> u64 {
        match self {
            KsCow::Borrowed(b) => vcoll::VKey::vkey(*b),
            KsCow::Owned(n) => n.0,
        }
    }
}
impl<'a> PartialEq for KsCow<'a, str> {
    fn eq(&self, o: &Self) -> bool {
        vcoll::VKey::vkey(self) == vcoll::VKey::vkey(o)
    }
}
impl<'a> PartialOrd for KsCow<'a, str> {
    fn partial_cmp(&self, o: &Self) -> Option<core::cmp::Ordering> {
        vcoll::VKey::vkey(self).partial_cmp(&vcoll::VKey::vkey(o))
    }
}
/// the names used by the group unit (real `Cow<str>` keys there)
pub const KS_STRS: [&str; 2] = ["a", "b"];
/// identities of the names "a" and "b"
pub const KS_NAMES: [KsName; 2] = [KsName(0x6100_0000_0000_0001), KsName(0x6200_0000_0000_0001)];

/// what storage holds: per keyspace, up to MAX_ROWS metadata rows (id, stamp, tombstone flag)
pub struct GhostStore {
    pub n_ks: usize,
    pub n_rows: [usize; MAX_KS],
    pub rows: [[(Key, HLCTimestamp, bool); MAX_ROWS]; MAX_KS],
    pub fail_list: bool,
    pub fail_rows: [bool; MAX_KS],
}
impl GhostStore {
    pub fn empty() -> Self {
        GhostStore { n_ks: 0, n_rows: [0; MAX_KS], rows: [[(0, HLCTimestamp::from_u64(0), false); MAX_ROWS]; MAX_KS], fail_list: false, fail_rows: [false; MAX_KS] }
    }
}
impl Storage for GhostStore {
    type Error = GhostError;
    type MetadataIter = vcoll::vvec::IntoIter<(Key, HLCTimestamp, bool)>;
    fn get_keyspace_list(&self) -> Result<VVec<KsName>, GhostError> {
        if self.fail_list {
            return Err(GhostError);
        }
        let mut v = VVec::new();
        let mut i = 0;
        while i < MAX_KS {
            if i < self.n_ks {
                v.push(KS_NAMES[i]);
            }
            i += 1;
        }
        Ok(v)
    }
    fn iter_metadata(&self, keyspace: &KsCow<'static, str>) -> Result<Self::MetadataIter, GhostError> {
        let mut i = 0;
        while i < MAX_KS {
            if vcoll::VKey::vkey(keyspace) == KS_NAMES[i].0 {
                if self.fail_rows[i] {
                    return Err(GhostError);
                }
                let mut v = VVec::new();
                let mut j = 0;
                while j < MAX_ROWS {
                    if j < self.n_rows[i] {
                        v.push(self.rows[i][j]);
                    }
                    j += 1;
                }
                return Ok(v.into_iter());
            }
            i += 1;
        }
        Ok(VVec::new().into_iter())
    }
}
