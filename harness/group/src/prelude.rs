// ---- prelude for group.rs slices ---------------------------------------------------------------
use std::borrow::Cow;
use std::ops::{Deref, DerefMut};

use vcoll::sync::{Arc, AtomicCell, RwLock};
use vcoll::vvec::VVec as Vec;
use vcoll::BTreeMap;

use crate::env::*;
// timers are immediately ready in the de-sugared text (retry / back-off loops a change may introduce must still compile)
#[allow(unused_imports)]
use std::time::Duration;
#[allow(dead_code)]
fn sleep(_d: Duration) {}

#[allow(unused_macros)]
macro_rules! info {
    ($($t:tt)*) => {};
}

/// mirror of `pub struct KeyspaceTimestamps(pub BTreeMap<..>)` with its Deref/DerefMut impls
#[derive(Default)]
pub struct KeyspaceTimestamps(pub BTreeMap<Cow<'static, str>, Arc<AtomicCell<HLCTimestamp>>>);
impl Deref for KeyspaceTimestamps {
    type Target = BTreeMap<Cow<'static, str>, Arc<AtomicCell<HLCTimestamp>>>;
    fn deref(&self) -> &Self::Target {
        &self.0
    }
}
impl DerefMut for KeyspaceTimestamps {
    fn deref_mut(&mut self) -> &mut Self::Target {
        &mut self.0
    }
}
// ---- end of prelude ---------------------------------------------------------------------------
