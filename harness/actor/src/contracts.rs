//! C02 contracts: {Agree /\ wf} handler {Agree /\ wf} for every message, every state, every
//! storage outcome.  Agree(k): the set holds k live at t  <=> storage holds the document at t;
//! tombstone at t <=> storage records a tombstone at t.  Checked at the touched key(s) AND at an
//! arbitrary bystander key. Single operations: class P (arbitrary unbounded set and store).
//! Bulk operations: class B (batch <= 2, arbitrary reported-success subset).
use core::marker::PhantomData;

use super::*;
use crate::kernels::*;
use vcoll::Havoc;

type Actor = KeyspaceActor<GhostStore>;

fn any_actor() -> Actor {
    KeyspaceActor {
        name: Cow::Borrowed("ks"),
        clock: Clock,
        storage: Arc::new(GhostStore::arbitrary_unbounded()),
        state: OrSWotSet::arbitrary_unbounded(),
        change_timestamp: Arc::new(AtomicCell::new(HLCTimestamp::from_u64(0))),
    }
}

#[derive(Clone, Copy, PartialEq, Eq)]
struct KeyView {
    live: Option<u64>,
    dead: Option<u64>,
    doc: Option<u64>,
    tomb: Option<u64>,
}
fn key_view(a: &Actor, k: Key) -> KeyView {
    KeyView {
        live: a.state.entries.get(&k).copied(),
        dead: a.state.dead.get(&k).copied(),
        doc: a.storage.doc_at(k),
        tomb: a.storage.tomb_at(k),
    }
}
fn agree(v: &KeyView) -> bool {
    v.live == v.doc && v.dead == v.tomb
}
fn wf(v: &KeyView) -> bool {
    !(v.live.is_some() && v.dead.is_some())
}
fn slot_of(v: &KeyView) -> Slot {
    match (v.live, v.dead) {
        (Some(e), _) => Slot::Live(e),
        (None, Some(d)) => Slot::Dead(d),
        (None, None) => Slot::Empty,
    }
}
fn doc(k: Key, ts: HLCTimestamp) -> Document {
    Document { metadata: DocumentMetadata { id: k, last_updated: ts } }
}

/// on_set: applied to both or to neither; agreement kept at the key and at a bystander.
#[kani::proof]
#[kani::unwind(4)]
fn ac_on_set() {
    let mut a = any_actor();
    let k: Key = kani::any();
    let k2: Key = kani::any();
    let ts = HLCTimestamp::havoc();
    let source: usize = kani::any();
    kani::assume(k != k2 && source < NUM_SOURCES);
    let (p, p2) = (key_view(&a, k), key_view(&a, k2));
    let cut = a.state.cutoff(ts.node());
    kani::assume(agree(&p) && agree(&p2) && wf(&p) && wf(&p2));
    // distinct timestamps: the incoming stamp is not the stamp of what is already held
    kani::assume(p.dead != Some(ts.as_u64()));
    let predicted = k_will_apply(slot_of(&p), cut, ts.as_u64());
    let r = (a.on_set(Set { source, doc: doc(k, ts), ctx: None, _marker: PhantomData }));
    let (q, q2) = (key_view(&a, k), key_view(&a, k2));
    assert!(agree(&q) && wf(&q), "set and store agree at the touched key after the request");
    assert!(q2 == p2, "bystander key untouched in both");
    let calls = a.storage.calls.get();
    if !predicted {
        assert!(r.is_ok() && calls == 0 && q == p, "not newest: no-op on both sides");
    } else if r.is_err() {
        assert!(q == p, "storage failed: applied to neither");
    } else {
        assert!(calls == 1 && q.live == Some(ts.as_u64()) && q.dead.is_none(), "applied to both");
    }
    kani::cover!(predicted && r.is_ok(), "set applied");
    kani::cover!(predicted && r.is_err(), "storage failure");
    kani::cover!(!predicted, "stale set ignored");
}

/// on_del: same contract for deletes.
#[kani::proof]
#[kani::unwind(4)]
fn ac_on_del() {
    let mut a = any_actor();
    let k: Key = kani::any();
    let k2: Key = kani::any();
    let ts = HLCTimestamp::havoc();
    let source: usize = kani::any();
    kani::assume(k != k2 && source < NUM_SOURCES);
    let (p, p2) = (key_view(&a, k), key_view(&a, k2));
    let cut = a.state.cutoff(ts.node());
    kani::assume(agree(&p) && agree(&p2) && wf(&p) && wf(&p2));
    let predicted = k_will_apply(slot_of(&p), cut, ts.as_u64());
    let r = (a.on_del(Del { source, doc: DocumentMetadata { id: k, last_updated: ts }, _marker: PhantomData }));
    let (q, q2) = (key_view(&a, k), key_view(&a, k2));
    assert!(agree(&q) && wf(&q), "set and store agree at the touched key after the request");
    assert!(q2 == p2, "bystander key untouched in both");
    let calls = a.storage.calls.get();
    if !predicted {
        assert!(r.is_ok() && calls == 0 && q == p, "not newest: no-op on both sides");
    } else if r.is_err() {
        assert!(q == p, "storage failed: applied to neither");
    } else {
        assert!(calls == 1 && q.dead == Some(ts.as_u64()) && q.live.is_none(), "applied to both");
    }
    kani::cover!(predicted && r.is_ok(), "delete applied");
    kani::cover!(predicted && r.is_err(), "storage failure");
}

/// on_multi_set, batch of <= 2 documents with distinct ids, any reported-success subset:
/// agreement at both ids and a bystander; exactly the documents storage reports as written
/// become visible in the set.
#[kani::proof]
#[kani::unwind(4)]
fn ac_on_multi_set() {
    let mut a = any_actor();
    let ks: [Key; 2] = [kani::any(), kani::any()];
    let k2: Key = kani::any();
    let tss = [HLCTimestamp::havoc(), HLCTimestamp::havoc()];
    let n: usize = kani::any();
    let source: usize = kani::any();
    kani::assume(n <= 2 && source < NUM_SOURCES && ks[0] != ks[1] && k2 != ks[0] && k2 != ks[1]);
    kani::assume(tss[0] != tss[1]);
    let p = [key_view(&a, ks[0]), key_view(&a, ks[1])];
    let p2 = key_view(&a, k2);
    kani::assume(agree(&p[0]) && agree(&p[1]) && agree(&p2) && wf(&p[0]) && wf(&p[1]) && wf(&p2));
    kani::assume(p[0].dead != Some(tss[0].as_u64()) && p[1].dead != Some(tss[1].as_u64()));
    let mut docs = DocVec::new();
    let mut i = 0;
    while i < 2 {
        if i < n {
            docs.push(doc(ks[i], tss[i]));
        }
        i += 1;
    }
    let r = (a.on_multi_set(MultiSet { source, docs, ctx: None, _marker: PhantomData }));
    let q = [key_view(&a, ks[0]), key_view(&a, ks[1])];
    let q2 = key_view(&a, k2);
    let mut i = 0;
    while i < 2 {
        assert!(agree(&q[i]) && wf(&q[i]), "set and store agree at every id of the batch");
        if i >= n {
            assert!(q[i] == p[i]);
        }
        if let Err(e) = &r {
            if i < n && q[i] != p[i] {
                assert!(e.successful_doc_ids().contains(&ks[i]), "only documents reported as written become visible");
            }
        }
        i += 1;
    }
    assert!(q2 == p2, "bystander key untouched in both");
    kani::cover!(r.is_err() && n == 2 && q[0] != p[0] && q[1] == p[1], "partial failure: first written, second not");
    kani::cover!(r.is_ok() && n == 2 && q[0] != p[0] && q[1] != p[1], "both applied");
}

/// on_multi_del, same contract.
#[kani::proof]
#[kani::unwind(4)]
fn ac_on_multi_del() {
    let mut a = any_actor();
    let ks: [Key; 2] = [kani::any(), kani::any()];
    let k2: Key = kani::any();
    let tss = [HLCTimestamp::havoc(), HLCTimestamp::havoc()];
    let n: usize = kani::any();
    let source: usize = kani::any();
    kani::assume(n <= 2 && source < NUM_SOURCES && ks[0] != ks[1] && k2 != ks[0] && k2 != ks[1]);
    kani::assume(tss[0] != tss[1]);
    let p = [key_view(&a, ks[0]), key_view(&a, ks[1])];
    let p2 = key_view(&a, k2);
    kani::assume(agree(&p[0]) && agree(&p[1]) && agree(&p2) && wf(&p[0]) && wf(&p[1]) && wf(&p2));
    let mut docs = DocVec::new();
    let mut i = 0;
    while i < 2 {
        if i < n {
            docs.push(DocumentMetadata { id: ks[i], last_updated: tss[i] });
        }
        i += 1;
    }
    let r = (a.on_multi_del(MultiDel { source, docs, _marker: PhantomData }));
    let q = [key_view(&a, ks[0]), key_view(&a, ks[1])];
    let q2 = key_view(&a, k2);
    let mut i = 0;
    while i < 2 {
        assert!(agree(&q[i]) && wf(&q[i]), "set and store agree at every id of the batch");
        if i >= n {
            assert!(q[i] == p[i]);
        }
        if let Err(e) = &r {
            if i < n && q[i] != p[i] {
                assert!(e.successful_doc_ids().contains(&ks[i]), "only tombstones reported as written become visible");
            }
        }
        i += 1;
    }
    assert!(q2 == p2, "bystander key untouched in both");
    kani::cover!(r.is_err() && n == 2 && q[0] != p[0] && q[1] == p[1], "partial failure");
    kani::cover!(r.is_ok() && n == 2 && q[0] != p[0] && q[1] != p[1], "both applied");
}

/// on_purge_tombstones with <= 2 tombstones: a tombstone leaves the set iff it left storage
/// (failed removals are re-added); live entries untouched.
#[kani::proof]
#[kani::unwind(4)]
fn ac_on_purge() {
    let mut a = any_actor();
    a.state.dead = vcoll::HashMap::new();
    let ks: [Key; 2] = [kani::any(), kani::any()];
    let k2: Key = kani::any();
    let tss = [HLCTimestamp::havoc(), HLCTimestamp::havoc()];
    let n: usize = kani::any();
    kani::assume(n <= 2 && ks[0] != ks[1] && k2 != ks[0] && k2 != ks[1]);
    let mut i = 0;
    while i < 2 {
        if i < n {
            a.state.dead.insert(ks[i], tss[i].as_u64());
        }
        i += 1;
    }
    let p = [key_view(&a, ks[0]), key_view(&a, ks[1])];
    let p2 = key_view(&a, k2);
    kani::assume(agree(&p[0]) && agree(&p[1]) && agree(&p2) && wf(&p[0]) && wf(&p[1]) && wf(&p2));
    let r = (a.on_purge_tombstones(PurgeDeletes(PhantomData)));
    let q = [key_view(&a, ks[0]), key_view(&a, ks[1])];
    let q2 = key_view(&a, k2);
    let mut i = 0;
    while i < 2 {
        assert!(agree(&q[i]) && wf(&q[i]), "tombstone gone from both or kept in both");
        assert!(q[i].live == p[i].live && q[i].doc == p[i].doc, "purging never touches live documents");
        if i < n && q[i].dead.is_none() {
            assert!(k_before(a.state.cutoff(tss[i].node()), tss[i].as_u64()), "only tombstones older than the cut-off are purged");
        }
        i += 1;
    }
    assert!(q2.live == p2.live && q2.doc == p2.doc && q2.tomb == p2.tomb);
    kani::cover!(r.is_err() && n == 2 && q[0].dead.is_none() && q[1].dead.is_some(), "partial purge failure re-adds the tombstone");
    kani::cover!(r.is_ok() && n == 2 && q[0].dead.is_none() && q[1].dead.is_none(), "both purged");
}

/// D9 (KNOWN FINDING, see known_findings.txt): a bulk put that carries the SAME id twice with the newer document FIRST.
/// Both documents pass `will_apply` (it is evaluated against the state before the batch), storage is handed both in request
/// order and ends on the OLDER one, the set is fed in stamp order and ends on the NEWER one. Concrete history on a blank node
/// (empty set, empty store), stamps symbolic with t_new > t_old, storage succeeds. Demonstrated on the real actor over the
/// crate's own MemStore in notes/D9_demo.diff. This obligation FAILS on the pinned tree by design and is reported as KNOWN-FINDING;
/// the bulk contracts ab_on_multi_set / ab_on_multi_del + lemmas_bulk decide every batch in which each id occurs at most once.
#[kani::proof]
#[kani::unwind(4)]
fn ac_bulk_dup_id() {
    let mut a = KeyspaceActor {
        name: Cow::Borrowed("ks"),
        clock: Clock,
        storage: Arc::new(GhostStore::empty()),
        state: OrSWotSet::default(),
        change_timestamp: Arc::new(AtomicCell::new(HLCTimestamp::from_u64(0))),
    };
    let k: Key = kani::any();
    let t_new = HLCTimestamp::havoc();
    let t_old = HLCTimestamp::havoc();
    kani::assume(t_old < t_new);
    let mut docs = DocVec::new();
    docs.push(doc(k, t_new));
    docs.push(doc(k, t_old));
    let r = (a.on_multi_set(MultiSet { source: 0, docs, ctx: None, _marker: PhantomData }));
    kani::assume(r.is_ok());
    let q = key_view(&a, k);
    kani::cover!(q.live == Some(t_new.as_u64()), "the set holds the newer document");
    assert!(q.live == q.doc, "D9: after a bulk put carrying one id twice, newer document first, the set and the store hold the same stamp for that id");
}

/// on_diff (C05, the actor's side of the repair exchange): the reply is EXACTLY the difference the set computes
/// against the peer's state -- `changes` = the peer's live entries this replica lacks, `removals` = the peer's
/// tombstones it lacks, each with the peer's stamp, nothing dropped, nothing added -- and the replica is unchanged.
/// Modular: `state.diff` is the contract of os_diff_list (SpecSet::diff = the `lacks` kernel per item);
/// peer state with <= 1 live entry + <= 1 tombstone (class B), own state arbitrary/unbounded.
#[kani::proof]
#[kani::unwind(4)]
fn ac_on_diff() {
    let a = any_actor();
    let mut o: OrSWotSet<NUM_SOURCES> = OrSWotSet::default();
    let kl: Key = kani::any();
    let kd: Key = kani::any();
    kani::assume(kl != kd);
    let tl = HLCTimestamp::havoc();
    let td = HLCTimestamp::havoc();
    let has_l: bool = kani::any();
    let has_d: bool = kani::any();
    if has_l {
        o.entries.insert(kl, tl.as_u64());
    }
    if has_d {
        o.dead.insert(kd, td.as_u64());
    }
    let pl = key_view(&a, kl);
    let pd = key_view(&a, kd);
    kani::assume(wf(&pl) && wf(&pd));
    let want_l = has_l && k_lacks(slot_of(&pl), a.state.cutoff(tl.node()), tl.as_u64());
    let want_d = has_d && k_lacks(slot_of(&pd), a.state.cutoff(td.node()), td.as_u64());
    let (changes, removals) = (a.on_diff(Diff(o)));
    assert!(changes.len() == if want_l { 1 } else { 0 }, "modifications: exactly the peer's live entries this replica lacks");
    assert!(removals.len() == if want_d { 1 } else { 0 }, "removals: exactly the peer's tombstones this replica lacks (held live, held as an older tombstone, or not held at all)");
    if want_l {
        assert!(changes.get(0) == Some(&(kl, tl)), "a modification carries the peer's stamp");
    }
    if want_d {
        assert!(removals.get(0) == Some(&(kd, td)), "a removal carries the peer's stamp");
    }
    assert!(key_view(&a, kl) == pl && key_view(&a, kd) == pd, "computing the difference changes nothing");
    kani::cover!(want_d && pd.live.is_none() && pd.dead.is_none(), "tombstone for a key this replica never held is listed");
    kani::cover!(want_d && pd.live.is_some(), "tombstone newer than the held live entry is listed");
    kani::cover!(has_d && !want_d, "tombstone not lacking");
    kani::cover!(want_l && want_d, "both lists non-empty");
}

// native replay of Kani counterexamples (tools/replay.py writes the file)
#[cfg(verif_replay)]
include!("/verif/build/actor/replay_tests.rs");
