// ---- prelude for actor.rs slices ---------------------------------------------------------------
use std::borrow::Cow;

use vcoll::vvec::VVec as Vec;
#[allow(unused_imports)]
use vcoll::{BTreeMap, BTreeSet, HashMap, HashSet};

use crate::env::*;
// ---- end of prelude ---------------------------------------------------------------------------
