//! Stand-ins for what actor.rs imports (trusted, listed in evidence):
//! documents/messages (field layout mirrors core.rs / messages.rs), the node clock, AtomicCell, Arc,
//! and the GHOST REFERENCE STORE: the `Storage` contract as two maps (documents, tombstones) per
//! keyspace, including failure: a single call may fail having written nothing; a bulk call may fail
//! with an arbitrary subset written, which is exactly the subset it reports in `successful_doc_ids`.
use core::cell::UnsafeCell;
use core::marker::PhantomData;

use vcoll::vvec::VVec;
use vcoll::{BTreeMap, Havoc};

pub use crate::specset::{Key, OrSWotSet, StateChanges};
pub use crate::timestamp::HLCTimestamp;

pub const NUM_SOURCES: usize = 2;
pub type DocVec<T> = VVec<T>;

#[derive(Copy, Clone, Debug, PartialEq)]
pub struct DocumentMetadata {
    pub id: Key,
    pub last_updated: HLCTimestamp,
}
#[derive(Clone, Debug, PartialEq)]
pub struct Document {
    pub metadata: DocumentMetadata,
}
impl Document {
    pub fn id(&self) -> Key {
        self.metadata.id
    }
    pub fn last_updated(&self) -> HLCTimestamp {
        self.metadata.last_updated
    }
}
pub struct PutContext;

// ---- messages (messages.rs)
pub struct Set<S> {
    pub source: usize,
    pub doc: Document,
    pub ctx: Option<PutContext>,
    pub _marker: PhantomData<S>,
}
pub struct MultiSet<S> {
    pub source: usize,
    pub docs: DocVec<Document>,
    pub ctx: Option<PutContext>,
    pub _marker: PhantomData<S>,
}
pub struct Del<S> {
    pub source: usize,
    pub doc: DocumentMetadata,
    pub _marker: PhantomData<S>,
}
pub struct MultiDel<S> {
    pub source: usize,
    pub docs: DocVec<DocumentMetadata>,
    pub _marker: PhantomData<S>,
}
pub struct PurgeDeletes<S>(pub PhantomData<S>);
pub struct Diff(pub OrSWotSet<NUM_SOURCES>);
pub struct SymDiff(pub OrSWotSet<NUM_SOURCES>);
pub struct Serialize;
pub struct LastUpdated;
pub struct CorruptedState;

// ---- small runtime stand-ins
pub struct Arc<T> {
    v: T,
}
impl<T> Arc<T> {
    pub fn new(v: T) -> Self {
        Arc { v }
    }
}
impl<T> core::ops::Deref for Arc<T> {
    type Target = T;
    fn deref(&self) -> &T {
        &self.v
    }
}
pub struct AtomicCell<T: Copy> {
    v: core::cell::Cell<T>,
}
impl<T: Copy> AtomicCell<T> {
    pub fn new(v: T) -> Self {
        AtomicCell { v: core::cell::Cell::new(v) }
    }
    pub fn store(&self, v: T) {
        self.v.set(v)
    }
    pub fn load(&self) -> T {
        self.v.get()
    }
}
/// node clock: any reading (its own properties are C09/C11)
pub struct Clock;
impl Clock {
    pub fn get_time(&self) -> HLCTimestamp {
        HLCTimestamp::havoc()
    }
}

// ---- storage contract
pub struct BulkMutationError<E> {
    pub(crate) inner: E,
    pub(crate) successful_doc_ids: VVec<Key>,
}
impl<E> BulkMutationError<E> {
    pub fn successful_doc_ids(&self) -> &VVec<Key> {
        &self.successful_doc_ids
    }
}
#[derive(Debug)]
pub struct GhostError;

pub trait Storage {
    type Error;
    fn put_with_ctx(&self, keyspace: &str, document: Document, ctx: Option<&PutContext>) -> Result<(), Self::Error>;
    fn multi_put_with_ctx(
        &self,
        keyspace: &str,
        documents: impl Iterator<Item = Document>,
        ctx: Option<&PutContext>,
    ) -> Result<(), BulkMutationError<Self::Error>>;
    fn mark_as_tombstone(&self, keyspace: &str, doc_id: Key, timestamp: HLCTimestamp) -> Result<(), Self::Error>;
    fn mark_many_as_tombstone(
        &self,
        keyspace: &str,
        documents: impl Iterator<Item = DocumentMetadata>,
    ) -> Result<(), BulkMutationError<Self::Error>>;
    fn remove_tombstones(&self, keyspace: &str, keys: impl Iterator<Item = Key>) -> Result<(), BulkMutationError<Self::Error>>;
}

/// The reference model of one keyspace of a `Storage`: id -> stamp of the stored document,
/// id -> stamp of the recorded tombstone. Writing a document clears the tombstone and vice versa.
pub struct GhostStore {
    pub docs: UnsafeCell<BTreeMap<Key, u64>>,
    pub tombs: UnsafeCell<BTreeMap<Key, u64>>,
    /// number of mutating calls that reached the store
    pub calls: core::cell::Cell<usize>,
}
impl GhostStore {
    pub fn arbitrary_unbounded() -> Self {
        GhostStore {
            docs: UnsafeCell::new(BTreeMap::arbitrary_unbounded()),
            tombs: UnsafeCell::new(BTreeMap::arbitrary_unbounded()),
            calls: core::cell::Cell::new(0),
        }
    }
    /// a store holding nothing (concrete maps), for the concrete-history obligations
    pub fn empty() -> Self {
        GhostStore { docs: UnsafeCell::new(BTreeMap::new()), tombs: UnsafeCell::new(BTreeMap::new()), calls: core::cell::Cell::new(0) }
    }
    #[allow(clippy::mut_from_ref)]
    pub fn d(&self) -> &mut BTreeMap<Key, u64> {
        unsafe { &mut *self.docs.get() }
    }
    #[allow(clippy::mut_from_ref)]
    pub fn t(&self) -> &mut BTreeMap<Key, u64> {
        unsafe { &mut *self.tombs.get() }
    }
    pub fn doc_at(&self, k: Key) -> Option<u64> {
        self.d().get(&k).copied()
    }
    pub fn tomb_at(&self, k: Key) -> Option<u64> {
        self.t().get(&k).copied()
    }
    fn write_doc(&self, k: Key, t: u64) {
        self.d().insert(k, t);
        self.t().remove(&k);
    }
    fn write_tomb(&self, k: Key, t: u64) {
        self.d().remove(&k);
        self.t().insert(k, t);
    }
    fn bump(&self) {
        self.calls.set(self.calls.get() + 1);
    }
}
fn fails() -> bool {
    bool::havoc()
}
impl Storage for GhostStore {
    type Error = GhostError;

    fn put_with_ctx(&self, _ks: &str, document: Document, _ctx: Option<&PutContext>) -> Result<(), GhostError> {
        self.bump();
        if fails() {
            return Err(GhostError);
        }
        self.write_doc(document.id(), document.last_updated().as_u64());
        Ok(())
    }
    fn mark_as_tombstone(&self, _ks: &str, doc_id: Key, timestamp: HLCTimestamp) -> Result<(), GhostError> {
        self.bump();
        if fails() {
            return Err(GhostError);
        }
        self.write_tomb(doc_id, timestamp.as_u64());
        Ok(())
    }
    fn multi_put_with_ctx(
        &self,
        _ks: &str,
        documents: impl Iterator<Item = Document>,
        _ctx: Option<&PutContext>,
    ) -> Result<(), BulkMutationError<GhostError>> {
        self.bump();
        let mut ok_ids = VVec::new();
        let mut failed = false;
        for d in documents {
            // each item is either written (and reported) or not
            if fails() {
                failed = true;
            } else {
                self.write_doc(d.id(), d.last_updated().as_u64());
                ok_ids.push(d.id());
            }
        }
        if failed || fails() {
            Err(BulkMutationError { inner: GhostError, successful_doc_ids: ok_ids })
        } else {
            Ok(())
        }
    }
    fn mark_many_as_tombstone(
        &self,
        _ks: &str,
        documents: impl Iterator<Item = DocumentMetadata>,
    ) -> Result<(), BulkMutationError<GhostError>> {
        self.bump();
        let mut ok_ids = VVec::new();
        let mut failed = false;
        for d in documents {
            if fails() {
                failed = true;
            } else {
                self.write_tomb(d.id, d.last_updated.as_u64());
                ok_ids.push(d.id);
            }
        }
        if failed || fails() {
            Err(BulkMutationError { inner: GhostError, successful_doc_ids: ok_ids })
        } else {
            Ok(())
        }
    }
    fn remove_tombstones(&self, _ks: &str, keys: impl Iterator<Item = Key>) -> Result<(), BulkMutationError<GhostError>> {
        self.bump();
        let mut ok_ids = VVec::new();
        let mut failed = false;
        for k in keys {
            if fails() {
                failed = true;
            } else {
                self.t().remove(&k);
                ok_ids.push(k);
            }
        }
        if failed || fails() {
            Err(BulkMutationError { inner: GhostError, successful_doc_ids: ok_ids })
        } else {
            Ok(())
        }
    }
}
