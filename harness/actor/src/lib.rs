//! Unit `actor` (C02; callee side of C05/C08): contracts on the message handlers of
//! KeyspaceActor sliced verbatim from /repo/datacake-eventual-consistency/src/keyspace/actor.rs.
//! Callees are linked by CONTRACT: the ORSWOT set is contracts/specset.rs (kernels over vcoll maps),
//! storage is the ghost reference store below.
#![allow(dead_code, unused_imports)]

#[path = "/repo/datacake-crdt/src/timestamp.rs"]
pub mod timestamp;
#[path = "/verif/contracts/kernels.rs"]
pub mod kernels;
#[path = "/verif/contracts/specset.rs"]
pub mod specset;

pub use timestamp::HLCTimestamp;

impl vcoll::Havoc for HLCTimestamp {
    #[cfg(kani)]
    fn havoc() -> Self {
        let t = HLCTimestamp::from_u64(kani::any());
        kani::assume(t.fractional() < 250);
        t
    }
    #[cfg(not(kani))]
    fn havoc() -> Self {
        unreachable!()
    }
}

pub mod env;

#[path = "/verif/build/actor/gen/actor.rs"]
pub mod actor;
