//! Unit `rpc_view` (C12): contracts on DataView::using (view.rs) and to_view_bytes (mod.rs),
//! sliced verbatim from /repo/datacake-rpc/src/rkyv_tooling, against stand-ins for rkyv and crc32fast.
#![allow(dead_code, unused_imports)]

pub mod standins;
pub use standins::{crc32fast, rkyv};

#[path = "/verif/build/rpc_view/gen/view.rs"]
pub mod view;

#[path = "/verif/build/rpc_view/gen/tooling.rs"]
pub mod tooling;

#[cfg(kani)]
mod contracts;
