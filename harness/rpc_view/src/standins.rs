//! Stand-ins for the two dependencies of the frame code.
//! * `crc32fast::hash`: an UNINTERPRETED function -- an arbitrary u32 per distinct input, the same
//!   u32 for the same input (memo of the last two inputs). Nothing about CRC-32 is assumed here.
//! * `rkyv::archived_root::<T>`: the real function is `unsafe` with the safety contract "the buffer
//!   ends with a valid archived T"; its length part -- `bytes.len() >= size_of::<T::Archived>()` -- is
//!   ASSERTED here, then the same pointer arithmetic as the real function is performed (under Kani's
//!   pointer checks). `AlignedVec` is a fixed-capacity byte buffer.

pub const MAXLEN: usize = 40;

pub mod crc32fast {
    use super::MAXLEN;
    pub static mut CALLS: usize = 0;
    pub static mut LAST_LEN: [usize; 2] = [0; 2];
    pub static mut LAST_IN: [[u8; MAXLEN]; 2] = [[0; MAXLEN]; 2];
    pub static mut LAST_OUT: [u32; 2] = [0; 2];

    pub fn hash(buf: &[u8]) -> u32 {
        unsafe {
            assert!(buf.len() <= MAXLEN, "vcoll: crc stand-in input longer than the harness bound");
            // same input as a remembered call => same output
            let mut c = 0;
            while c < 2 {
                if c < CALLS && LAST_LEN[c] == buf.len() {
                    let mut same = true;
                    let mut i = 0;
                    while i < MAXLEN {
                        if i < buf.len() && LAST_IN[c][i] != buf[i] {
                            same = false;
                        }
                        i += 1;
                    }
                    if same {
                        return LAST_OUT[c];
                    }
                }
                c += 1;
            }
            assert!(CALLS < 2, "vcoll: crc stand-in remembers two inputs");
            let out: u32 = any_u32();
            let slot = CALLS;
            LAST_LEN[slot] = buf.len();
            let mut i = 0;
            while i < MAXLEN {
                if i < buf.len() {
                    LAST_IN[slot][i] = buf[i];
                }
                i += 1;
            }
            LAST_OUT[slot] = out;
            CALLS += 1;
            out
        }
    }
    #[cfg(kani)]
    fn any_u32() -> u32 {
        kani::any()
    }
    #[cfg(not(kani))]
    fn any_u32() -> u32 {
        unreachable!()
    }
}

pub mod rkyv {
    use super::MAXLEN;

    pub trait Archive {
        type Archived;
    }
    pub type Archived<T> = <T as Archive>::Archived;

    #[derive(Clone)]
    /// heap-backed like the real AlignedVec: moving the vector does not move the bytes
    /// (DataView keeps a reference into the buffer it owns)
    pub struct AlignedVec {
        buf: Box<[u8; MAXLEN]>,
        len: usize,
    }
    impl AlignedVec {
        pub fn new() -> Self {
            AlignedVec { buf: Box::new([0; MAXLEN]), len: 0 }
        }
        pub fn with_capacity(_c: usize) -> Self {
            Self::new()
        }
        pub fn as_slice(&self) -> &[u8] {
            &self.buf[..self.len]
        }
        pub fn len(&self) -> usize {
            self.len
        }
        pub fn extend_from_slice(&mut self, s: &[u8]) {
            assert!(self.len + s.len() <= MAXLEN, "vcoll: AlignedVec stand-in capacity exceeded");
            let mut i = 0;
            while i < s.len() {
                self.buf[self.len + i] = s[i];
                i += 1;
            }
            self.len += s.len();
        }
        pub fn push(&mut self, b: u8) {
            assert!(self.len < MAXLEN, "vcoll: AlignedVec stand-in capacity exceeded");
            self.buf[self.len] = b;
            self.len += 1;
        }
    }
    impl core::ops::Deref for AlignedVec {
        type Target = [u8];
        fn deref(&self) -> &[u8] {
            self.as_slice()
        }
    }

    /// Safety contract of the real `rkyv::archived_root` (length part) asserted, then the same
    /// pointer computation as rkyv: the root object sits at the end of the buffer.
    pub unsafe fn archived_root<T: Archive + ?Sized>(bytes: &[u8]) -> &T::Archived
    where
        T::Archived: Sized,
    {
        let size = core::mem::size_of::<T::Archived>();
        assert!(bytes.len() >= size, "archived_root safety precondition: buffer shorter than the archived root (read outside the buffer)");
        let pos = bytes.len() - size;
        &*bytes.as_ptr().add(pos).cast::<T::Archived>()
    }

    pub trait Fallible {
        type Error;
    }
    /// stand-in: a value serialises to `archived_len()` arbitrary bytes (at least the archived root)
    pub trait Serialize<S: Fallible + ?Sized>: Archive {}

    pub mod ser {
        use super::{Fallible, Serialize};
        pub trait Serializer: Fallible {
            fn serialize_value<T: Serialize<Self>>(&mut self, value: &T) -> Result<usize, Self::Error>
            where
                T::Archived: Sized;
        }
        pub mod serializers {
            use super::super::{AlignedVec, Fallible, Serialize};
            use super::Serializer;
            pub struct AlignedSerializer<A> {
                inner: A,
            }
            impl<A> AlignedSerializer<A> {
                pub fn new(inner: A) -> Self {
                    AlignedSerializer { inner }
                }
                pub fn into_inner(self) -> A {
                    self.inner
                }
            }
            #[derive(Default)]
            pub struct SharedSerializeMap;
            impl SharedSerializeMap {
                pub fn new() -> Self {
                    SharedSerializeMap
                }
            }
            pub struct SerError;
            pub struct CompositeSerializer<S, C, H> {
                s: S,
                c: C,
                h: H,
            }
            impl<S, C, H> CompositeSerializer<S, C, H> {
                pub fn new(s: S, c: C, h: H) -> Self {
                    CompositeSerializer { s, c, h }
                }
                pub fn into_serializer(self) -> S {
                    self.s
                }
            }
            impl<S, C, H> Fallible for CompositeSerializer<S, C, H> {
                type Error = SerError;
            }
            impl<C, H> Serializer for CompositeSerializer<AlignedSerializer<AlignedVec>, C, H> {
                /// arbitrary outcome: failure, or n arbitrary bytes with n >= size_of::<Archived<T>>()
                /// (what rkyv guarantees for a root object written last)
                fn serialize_value<T: Serialize<Self>>(&mut self, _value: &T) -> Result<usize, SerError>
                where
                    T::Archived: Sized,
                {
                    #[cfg(kani)]
                    {
                        if kani::any() {
                            return Err(SerError);
                        }
                        let n: usize = kani::any();
                        kani::assume(n >= core::mem::size_of::<T::Archived>() && n <= super::super::super::MAXLEN - 4);
                        let mut i = 0;
                        while i < super::super::super::MAXLEN {
                            if i < n {
                                self.s.inner.push(kani::any());
                            }
                            i += 1;
                        }
                        return Ok(n - core::mem::size_of::<T::Archived>());
                    }
                    #[cfg(not(kani))]
                    unreachable!()
                }
            }
        }
    }
}
