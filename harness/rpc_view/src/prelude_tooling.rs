// ---- prelude for mod.rs slices ------------------------------------------------------------
use crate::rkyv::ser::serializers::{AlignedSerializer, CompositeSerializer, SharedSerializeMap};
use crate::rkyv::ser::Serializer;
use crate::rkyv::{AlignedVec, Fallible, Serialize};
use crate::crc32fast;
/// scratch space stand-in (rkyv_tooling/scratch.rs is allocation plumbing, not sliced)
#[derive(Default)]
pub struct LazyScratch;
// ---- end of prelude ---------------------------------------------------------------------------
