// ---- prelude for view.rs slices -----------------------------------------------------------
use std::mem;
use std::ops::Deref;
use crate::rkyv::{self, AlignedVec, Archive};
use crate::crc32fast;
// ---- end of prelude ---------------------------------------------------------------------------
