//! C12 frame contracts. `T::Archived` is a fixed-size stand-in instantiated at 1, 8 and 24 bytes
//! (`size_of` is a compile-time constant, so the size cannot be symbolic); the frame is any byte
//! string of any length up to MAXLEN = 40 (the only bound: buffer length).
use crate::crc32fast;
use crate::rkyv::{AlignedVec, Archive, Fallible, Serialize};
use crate::standins::MAXLEN;
use crate::tooling::to_view_bytes;
use crate::view::{DataView, InvalidView};

macro_rules! msg_type {
    ($t:ident, $a:ident, $n:expr) => {
        pub struct $t;
        #[repr(C)]
        pub struct $a(pub [u8; $n]);
        impl Archive for $t {
            type Archived = $a;
        }
        impl<S: Fallible + ?Sized> Serialize<S> for $t {}
    };
}
msg_type!(Msg1, Arch1, 1);
msg_type!(Msg8, Arch8, 8);
msg_type!(Msg24, Arch24, 24);

fn any_frame() -> (AlignedVec, [u8; MAXLEN], usize) {
    let n: usize = kani::any();
    kani::assume(n <= MAXLEN);
    let bytes: [u8; MAXLEN] = kani::any();
    let mut buf = AlignedVec::new();
    let mut i = 0;
    while i < MAXLEN {
        if i < n {
            buf.push(bytes[i]);
        }
        i += 1;
    }
    (buf, bytes, n)
}
fn le32(b: &[u8; MAXLEN], at: usize) -> u32 {
    u32::from_le_bytes([b[at], b[at + 1], b[at + 2], b[at + 3]])
}

macro_rules! using_contract {
    ($name:ident, $t:ident, $size:expr) => {
        /// using(frame): Ok <=> len >= 4 + size_of::<Archived<T>>() and crc(body) == le32(trailer);
        /// never reads outside the buffer (Kani pointer checks + archived_root's asserted precondition);
        /// an accepted view exposes exactly the frame bytes and the root at the end of the body.
        #[kani::proof]
        #[kani::unwind(42)]
        fn $name() {
            let (buf, bytes, n) = any_frame();
            let r = DataView::<$t>::using(buf);
            let calls = unsafe { crc32fast::CALLS };
            if n < 4 + $size {
                assert!(r.is_err(), "a frame shorter than the fixed-size part plus the trailer is refused");
            } else {
                assert!(calls == 1, "the checksum of the body is computed");
                let (len, out) = unsafe { (crc32fast::LAST_LEN[0], crc32fast::LAST_OUT[0]) };
                assert!(len == n - 4, "over exactly the body");
                let mut i = 0;
                while i < MAXLEN {
                    if i < n - 4 {
                        assert!(unsafe { crc32fast::LAST_IN[0][i] } == bytes[i]);
                    }
                    i += 1;
                }
                assert!(r.is_ok() == (out == le32(&bytes, n - 4)), "accepted exactly when the trailer matches the body's checksum");
            }
            if let Ok(v) = &r {
                let got = v.as_bytes();
                assert!(got.len() == n);
                let root: &<$t as Archive>::Archived = &*v;
                let p = root as *const _ as *const u8;
                assert!(p == unsafe { got.as_ptr().add(n - 4 - $size) }, "the view is the root object at the end of the body");
                let first = root.0[0];
                let last = root.0[$size - 1];
                assert!(first == bytes[n - 4 - $size] && last == bytes[n - 5], "and reads the frame's own bytes");
            }
            kani::cover!(r.is_ok(), "a frame is accepted");
            kani::cover!(r.is_err() && n >= 4 + $size, "checksum mismatch is refused");
            kani::cover!(n == 4, "the four-byte frame");
        }
    };
}
using_contract!(view_using_1, Msg1, 1);
using_contract!(view_using_8, Msg8, 8);
using_contract!(view_using_24, Msg24, 24);

macro_rules! roundtrip_contract {
    ($name:ident, $t:ident, $size:expr) => {
        /// to_view_bytes(v) == body || le32(crc(body)); the receiver accepts it.
        #[kani::proof]
        #[kani::unwind(42)]
        fn $name() {
            let r = to_view_bytes(&$t);
            match r {
                Err(_) => {
                    kani::cover!(true, "serialisation failure is reported");
                },
                Ok(buf) => {
                    let n = buf.len();
                    assert!(n >= 4 + $size);
                    let (calls, len, out) = unsafe { (crc32fast::CALLS, crc32fast::LAST_LEN[0], crc32fast::LAST_OUT[0]) };
                    assert!(calls == 1 && len == n - 4, "checksum over exactly the serialised body");
                    let s = buf.as_slice();
                    let mut i = 0;
                    while i < MAXLEN {
                        if i < n - 4 {
                            assert!(unsafe { crc32fast::LAST_IN[0][i] } == s[i]);
                        }
                        i += 1;
                    }
                    assert!(u32::from_le_bytes([s[n - 4], s[n - 3], s[n - 2], s[n - 1]]) == out, "trailer is the little-endian checksum");
                    let v = DataView::<$t>::using(buf);
                    assert!(v.is_ok(), "the frame a sender builds is accepted by the receiver");
                    kani::cover!(n == 4 + $size, "smallest frame");
                },
            }
        }
    };
}
roundtrip_contract!(view_roundtrip_8, Msg8, 8);
roundtrip_contract!(view_roundtrip_24, Msg24, 24);

// native replay of Kani counterexamples (tools/replay.py writes the file)
#[cfg(verif_replay)]
include!("/verif/build/rpc_view/replay_tests.rs");
