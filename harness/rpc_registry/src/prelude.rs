// ---- prelude (hand-written stand-ins for the names server.rs imports) --------------------
// std::collections -> vcoll (concrete, bounded maps); parking_lot::{Mutex, RwLock} -> single-owner
// cells (assumption: a lock gives exclusive access); std::sync::Arc -> leak-based shared pointer;
// handler objects -> opaque ids; crate::hash -> injective function on the URIs in play.
use vcoll::BTreeMap;
// BTreeSet<HandlerKey> (only used as a map value, with insert/contains) -> 64-bit mask over the harness keys
use vcoll::bitset::BitSet as BTreeSet;

pub type HandlerKey = u64;

pub trait OpaqueMessageHandler {
    fn id(&self) -> u64;
}
pub struct H(pub u64);
impl OpaqueMessageHandler for H {
    fn id(&self) -> u64 {
        self.0
    }
}

/// shared pointer stand-in: clone copies the pointer, the pointee is never freed
pub struct Arc<T: ?Sized> {
    p: *const T,
}
impl<T> Arc<T> {
    pub fn new(v: T) -> Self {
        Arc { p: Box::leak(Box::new(v)) as *const T }
    }
}
impl<T: ?Sized> Arc<T> {
    pub fn from_box(b: Box<T>) -> Self {
        Arc { p: Box::leak(b) as *const T }
    }
}
impl<T: ?Sized> Clone for Arc<T> {
    fn clone(&self) -> Self {
        Arc { p: self.p }
    }
}
impl<T: ?Sized> core::ops::Deref for Arc<T> {
    type Target = T;
    fn deref(&self) -> &T {
        unsafe { &*self.p }
    }
}
impl<T: Default> Default for Arc<T> {
    fn default() -> Self {
        Arc::new(T::default())
    }
}
impl vcoll::Havoc for Arc<dyn OpaqueMessageHandler> {
    fn havoc() -> Self {
        unreachable!("registry maps are concrete")
    }
}

pub struct Mutex<T> {
    v: core::cell::UnsafeCell<T>,
}
impl<T: Default> Default for Mutex<T> {
    fn default() -> Self {
        Mutex { v: core::cell::UnsafeCell::new(T::default()) }
    }
}
impl<T> Mutex<T> {
    #[allow(clippy::mut_from_ref)]
    pub fn lock(&self) -> &mut T {
        unsafe { &mut *self.v.get() }
    }
}
pub struct RwLock<T> {
    v: core::cell::UnsafeCell<T>,
}
impl<T: Default> Default for RwLock<T> {
    fn default() -> Self {
        RwLock { v: core::cell::UnsafeCell::new(T::default()) }
    }
}
impl<T> RwLock<T> {
    #[allow(clippy::mut_from_ref)]
    pub fn write(&self) -> &mut T {
        unsafe { &mut *self.v.get() }
    }
    pub fn read(&self) -> &T {
        unsafe { &*self.v.get() }
    }
}

// ---- end of prelude ---------------------------------------------------------------------------
