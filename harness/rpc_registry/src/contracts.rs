//! C13 contracts (class B: inductive step over every registry state within the bound).
//! State space: 4 possible handler keys (URIs "/0".."/3"), 3 services ("a","b","c"), at most
//! 2 keys per service. Service names and URIs are kept CONCRETE on every path (guarded loops over
//! the tables) -- symbolic `String`s exhaust CBMC's memory. The start state is an ARBITRARY state satisfying the
//! registry invariant I within that bound; one add/remove from it == induction over all
//! add/remove histories inside the bound.
//!   I: dom(handlers) == union of services[s]; key sets of different services are disjoint.
use super::*;

const URIS: [&str; 4] = ["/0", "/1", "/2", "/3"];
const NAMES: [&str; 3] = ["a", "b", "c"];
const NK: usize = 4;

fn key_of(i: usize) -> HandlerKey {
    crate::hash(URIS[i])
}

/// abstract state: owner[i] = service owning key i (3 = unowned), hid[i] = handler identity
#[derive(Clone, Copy)]
struct Abs {
    owner: [u8; NK],
    hid: [u64; NK],
}

fn any_abs() -> Abs {
    let a = Abs { owner: kani::any(), hid: kani::any() };
    let mut cnt = [0u8; 3];
    let mut i = 0;
    while i < NK {
        kani::assume(a.owner[i] <= 3);
        if a.owner[i] < 3 {
            cnt[a.owner[i] as usize] += 1;
        }
        i += 1;
    }
    kani::assume(cnt[0] <= 2 && cnt[1] <= 2 && cnt[2] <= 2);
    a
}

fn mask_of(a: &Abs, s: usize) -> u64 {
    let mut m = 0u64;
    let mut i = 0;
    while i < NK {
        if a.owner[i] as usize == s {
            m |= 1u64 << key_of(i);
        }
        i += 1;
    }
    m
}

/// concrete registry state for an abstract state (this IS the invariant I).
/// `empty_entry[s]`: a service with no keys may be absent or present with an empty key set.
fn build(a: &Abs) -> ServerState {
    let st = ServerState::default();
    let empty_entry: [bool; 3] = kani::any();
    let mut s = 0;
    while s < 3 {
        let m = mask_of(a, s);
        if m != 0 || empty_entry[s] {
            let set = st.services.lock().entry(NAMES[s].to_string()).or_default();
            let mut i = 0;
            while i < NK {
                if a.owner[i] as usize == s {
                    set.insert(key_of(i));
                }
                i += 1;
            }
        }
        s += 1;
    }
    let mut i = 0;
    while i < NK {
        if a.owner[i] < 3 {
            let h: Arc<dyn OpaqueMessageHandler> = Arc::from_box(Box::new(H(a.hid[i])));
            st.handlers.write().insert(key_of(i), h);
        }
        i += 1;
    }
    st
}

/// the registry holds exactly the abstract state: dispatch (get_handler) per URI, and the
/// per-service key sets that later removals rely on (so the step is inductive)
fn check_is(st: &ServerState, a: &Abs) {
    let mut i = 0;
    while i < NK {
        let got = st.get_handler(URIS[i]);
        if a.owner[i] < 3 {
            assert!(got.is_some(), "a registered service's message is dispatched");
            assert!(got.unwrap().id() == a.hid[i], "to the handler that was registered for it");
        } else {
            assert!(got.is_none(), "an unregistered / removed service's message is refused");
        }
        i += 1;
    }
    let mut s = 0;
    while s < 3 {
        let recorded = st.services.lock().get(NAMES[s]).map(|x| x.raw()).unwrap_or(0);
        assert!(recorded == mask_of(a, s), "keys recorded under a service == the handlers it owns (none left behind)");
        s += 1;
    }
}

/// remove_handlers(s): exactly the handlers of s disappear; every other service keeps every handler.
#[kani::proof]
#[kani::unwind(10)]
fn reg_remove_step() {
    let a = any_abs();
    let st = build(&a);
    let s: u8 = kani::any();
    kani::assume(s < 3);
    let mut j = 0;
    while j < 3 {
        if s as usize == j {
            st.remove_handlers(NAMES[j]);
        }
        j += 1;
    }
    let mut b = a;
    let mut i = 0;
    while i < NK {
        if b.owner[i] == s {
            b.owner[i] = 3;
        }
        i += 1;
    }
    check_is(&st, &b);
    kani::cover!(a.owner[0] == s && a.owner[1] < 3 && a.owner[1] != s, "removal with another service registered");
}

/// add_handlers(s, hs): the new handlers are served, everything else is unchanged.
/// WHICH keys are added is concrete per harness (`mask`: bit i = URI i); the registry state, the
/// service, the handler identities stay symbolic. (With a symbolic key set CBMC exceeds 20 GB.)
fn add_step(mask: u8, svc: Option<u8>) {
    // smaller symbolic state for this (heavier) operation: URIs 2 and 3 are unowned unless added by the call itself
    let mut a = any_abs();
    a.owner[2] = 3;
    a.owner[3] = 3;
    let st = build(&a);
    // the service is concrete where the harness says so (a symbolic service makes CBMC analyse three copies of the call)
    let s: u8 = match svc {
        Some(v) => v,
        None => {
            let v: u8 = kani::any();
            kani::assume(v < 3);
            v
        },
    };
    let nh: [u64; NK] = kani::any();
    let mut b = a;
    let mut hs: BTreeMap<HandlerKey, Arc<dyn OpaqueMessageHandler>> = BTreeMap::new();
    let mut i = 0;
    while i < NK {
        if (mask >> i) & 1 == 1 {
            // URIs embed the service name: a key is unowned or already owned by the same service
            kani::assume(a.owner[i] == 3 || a.owner[i] == s);
            hs.insert(key_of(i), Arc::from_box(Box::new(H(nh[i]))));
            b.owner[i] = s;
            b.hid[i] = nh[i];
        }
        i += 1;
    }
    // stay inside the bound after the operation
    let mut cnt = 0;
    let mut i = 0;
    while i < NK {
        if b.owner[i] == s {
            cnt += 1;
        }
        i += 1;
    }
    kani::assume(cnt <= 2);
    let mut j = 0;
    while j < 3 {
        if s as usize == j {
            st.add_handlers(NAMES[j], hs);
            break;
        }
        j += 1;
    }
    check_is(&st, &b);
    kani::cover!(cnt == 2, "the service ends with two handlers");
    kani::cover!(mask.count_ones() != 1 || cnt == 2, "a handler added to a service that already has one");
}
macro_rules! add_harness {
    ($name:ident, $mask:expr) => {
        add_harness!($name, $mask, None);
    };
    ($name:ident, $mask:expr, $svc:expr) => {
        #[kani::proof]
        #[kani::unwind(10)]
        fn $name() {
            add_step($mask, $svc);
        }
    };
}
add_harness!(reg_add_k0_s0, 0b0001, Some(0));
add_harness!(reg_add_k0_s1, 0b0001, Some(1));
add_harness!(reg_add_k0_s2, 0b0001, Some(2));
add_harness!(reg_add_k01_s0, 0b0011, Some(0));
add_harness!(reg_add_k01_s1, 0b0011, Some(1));
add_harness!(reg_add_k01_s2, 0b0011, Some(2));
add_harness!(reg_add_k2_s1, 0b0100, Some(1));
add_harness!(reg_add_k13_s1, 0b1010, Some(1));
add_harness!(reg_add_none_s1, 0b0000, Some(1));
add_harness!(reg_add_k0, 0b0001);
add_harness!(reg_add_k2, 0b0100);
add_harness!(reg_add_k01, 0b0011);
add_harness!(reg_add_k13, 0b1010);
add_harness!(reg_add_none, 0b0000);

/// the invariant builder itself is observed correctly (vacuity guard for check_is / build)
#[kani::proof]
#[kani::unwind(10)]
fn reg_lookup() {
    let a = any_abs();
    let st = build(&a);
    check_is(&st, &a);
    kani::cover!(a.owner[0] == 0 && a.owner[1] == 1 && a.owner[2] == 2 && a.owner[3] == 0, "three services registered");
}

// native replay of Kani counterexamples (tools/replay.py writes the file)
#[cfg(verif_replay)]
include!("/verif/build/rpc_registry/replay_tests.rs");
