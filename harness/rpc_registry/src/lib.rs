//! Unit `rpc_registry` (C13): contracts on ServerState::{add_handlers, remove_handlers, get_handler}
//! sliced verbatim from /repo/datacake-rpc/src/server.rs, pasted after src/prelude.rs.
#![allow(dead_code, unused_imports)]

#[path = "/verif/build/rpc_registry/gen/server.rs"]
pub mod server;

/// `crate::hash` stand-in: injective on the URIs the harness uses ("/0" .. "/3").
/// (The real one is SipHash via DefaultHasher; assumption: no collisions among registered URIs.)
pub fn hash(uri: &str) -> u64 {
    let b = uri.as_bytes();
    assert!(b.len() == 2, "vcoll: harness URIs are two bytes");
    (b[1] - b'0') as u64
}
