//! C02, bulk handlers, modular contract (class B: batch <= 3, ids and stamps symbolic and NOT assumed
//! distinct, every will_apply answer and every reported-success subset arbitrary):
//!  (1) storage is handed exactly the documents the set said it would apply, in the order given;
//!  (2) the set then receives one insert/delete through the request's source for exactly those
//!      documents storage reports as written (all of them on Ok), in non-decreasing timestamp order;
//!  (3) the reply is Ok exactly when storage's was.
use core::marker::PhantomData;

use super::*;

type Actor = KeyspaceActor<RecStore>;

fn new_actor() -> Actor {
    KeyspaceActor {
        name: Cow::Borrowed("ks"),
        clock: Clock,
        storage: Arc::new(RecStore::new()),
        state: OrSWotSet::recording(),
        change_timestamp: Arc::new(AtomicCell::new(HLCTimestamp::from_u64(0))),
    }
}
fn any_ts() -> HLCTimestamp {
    HLCTimestamp::from_u64(kani::any())
}

const B: usize = 3;

fn check_bulk(a: &Actor, items: &[(Key, u64); B], n: usize, source: usize, is_delete: bool, ok: bool, successful: Option<&Vec<Key>>) {
    let asked = a.state.asked();
    let handed = a.storage.handed();
    // (0) the set is asked once per document, in order
    assert!(asked.len() == n, "will_apply is consulted once per document");
    let mut i = 0;
    let mut n_valid = 0;
    while i < B {
        if i < n {
            assert!(asked[i].key == items[i].0 && asked[i].stamp == items[i].1);
            if asked[i].answer {
                // (1) the j-th valid document is the j-th item handed to storage
                assert!(n_valid < handed.len(), "every document the set would apply is handed to storage");
                let h = handed[n_valid];
                assert!(h.key == items[i].0 && h.stamp == items[i].1 && h.is_delete == is_delete, "in the order given, with its own stamp");
                n_valid += 1;
            }
        }
        i += 1;
    }
    assert!(handed.len() == n_valid, "nothing else is handed to storage");
    assert!(a.storage.calls.get() == 1, "one storage call per bulk request");
    // (2) operations on the set
    let ops = &a.state.ops;
    let mut want = 0;
    let mut j = 0;
    while j < B {
        if j < handed.len() {
            let h = handed[j];
            let visible = match successful {
                None => true,
                Some(ids) => ids.contains(&h.key),
            };
            // multiplicity: as many set operations for (key, stamp) as visible handed items with that (key, stamp)
            let mut c_ops = 0;
            for op in ops.iter() {
                if op.key == h.key && op.stamp == h.stamp {
                    assert!(op.is_delete == is_delete && op.source == source, "applied through the request's source");
                    c_ops += 1;
                }
            }
            let mut c_handed = 0;
            for g in handed.iter() {
                let vis_g = match successful {
                    None => true,
                    Some(ids) => ids.contains(&g.key),
                };
                if vis_g && g.key == h.key && g.stamp == h.stamp {
                    c_handed += 1;
                }
            }
            assert!(c_ops == c_handed, "exactly the documents storage reports as written become visible in the set");
            if visible {
                want += 1;
            }
        }
        j += 1;
    }
    assert!(ops.len() == want, "and nothing else");
    let mut k = 1;
    while k < B {
        if k < ops.len() {
            assert!(ops[k - 1].stamp <= ops[k].stamp, "operations reach the set in timestamp order");
        }
        k += 1;
    }
    // (3)
    assert!(ok == successful.is_none());
}

fn multi_set_contract(max_n: usize) {
    let mut a = new_actor();
    let items: [(Key, u64); B] = [(kani::any(), kani::any()), (kani::any(), kani::any()), (kani::any(), kani::any())];
    let n: usize = kani::any();
    let source: usize = kani::any();
    kani::assume(n <= B && n <= max_n && source < NUM_SOURCES);
    let mut docs = DocVec::new();
    let mut i = 0;
    while i < B {
        if i < n {
            docs.push(Document { metadata: DocumentMetadata { id: items[i].0, last_updated: HLCTimestamp::from_u64(items[i].1) } });
        }
        i += 1;
    }
    let r = a.on_multi_set(MultiSet { source, docs, ctx: None, _marker: PhantomData });
    match &r {
        Ok(()) => check_bulk(&a, &items, n, source, false, true, None),
        Err(e) => check_bulk(&a, &items, n, source, false, false, Some(e.successful_doc_ids())),
    }
    kani::cover!(max_n < 3 || (r.is_err() && n == 3 && a.state.ops.len() == 1), "partial failure: one of three written");
    kani::cover!(max_n < 3 || (r.is_ok() && n == 3 && a.state.ops.len() == 3), "all three applied");
    kani::cover!(max_n < 3 || (r.is_ok() && n == 3 && a.state.ops.len() == 2), "one of three not newest, skipped before storage");
}

fn multi_del_contract(max_n: usize) {
    let mut a = new_actor();
    let items: [(Key, u64); B] = [(kani::any(), kani::any()), (kani::any(), kani::any()), (kani::any(), kani::any())];
    let n: usize = kani::any();
    let source: usize = kani::any();
    kani::assume(n <= B && n <= max_n && source < NUM_SOURCES);
    let mut docs = DocVec::new();
    let mut i = 0;
    while i < B {
        if i < n {
            docs.push(DocumentMetadata { id: items[i].0, last_updated: HLCTimestamp::from_u64(items[i].1) });
        }
        i += 1;
    }
    let r = a.on_multi_del(MultiDel { source, docs, _marker: PhantomData });
    match &r {
        Ok(()) => check_bulk(&a, &items, n, source, true, true, None),
        Err(e) => check_bulk(&a, &items, n, source, true, false, Some(e.successful_doc_ids())),
    }
    kani::cover!(max_n < 3 || (r.is_err() && n == 3 && a.state.ops.len() == 1), "partial failure");
    kani::cover!(max_n < 3 || (r.is_ok() && n == 3 && a.state.ops.len() == 3), "all three applied");
}

#[kani::proof]
#[kani::unwind(5)]
fn ab_on_multi_set() {
    multi_set_contract(3);
}
#[kani::proof]
#[kani::unwind(5)]
fn ab_on_multi_del() {
    multi_del_contract(3);
}
/// the same contracts for batches of <= 2 documents (quick tier)
#[kani::proof]
#[kani::unwind(5)]
fn ab_on_multi_set_2() {
    multi_set_contract(2);
}
#[kani::proof]
#[kani::unwind(5)]
fn ab_on_multi_del_2() {
    multi_del_contract(2);
}

// native replay of Kani counterexamples (tools/replay.py writes the file)
#[cfg(verif_replay)]
include!("/verif/build/actor_bulk/replay_tests.rs");
