// ---- prelude for actor.rs slices (bulk unit) ---------------------------------------------------
use std::borrow::Cow;

use vcoll::vvec::VVec as Vec;
use vcoll::HashSet;

use crate::env::*;
// ---- end of prelude ---------------------------------------------------------------------------
