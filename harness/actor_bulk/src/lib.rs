//! Unit `actor_bulk` (C02, bulk half): contracts on KeyspaceActor::on_multi_set / on_multi_del sliced
//! verbatim from keyspace/actor.rs, checked MODULARLY against recording stand-ins: the contract is
//! WHICH documents reach storage, in which order, and WHICH operations then reach the set, in which
//! order and through which source. What those operations do to a real set/store is the single-operation
//! contracts (ac_on_set / os_insert_contract ...) and the composition is a Verus lemma (lemmas/bulk.rs).
#![allow(dead_code, unused_imports)]

#[path = "/repo/datacake-crdt/src/timestamp.rs"]
pub mod timestamp;
pub use timestamp::HLCTimestamp;

impl vcoll::Havoc for HLCTimestamp {
    #[cfg(kani)]
    fn havoc() -> Self {
        let t = HLCTimestamp::from_u64(kani::any());
        kani::assume(t.fractional() < 250);
        t
    }
    #[cfg(not(kani))]
    fn havoc() -> Self {
        unreachable!()
    }
}

pub mod env;

#[path = "/verif/build/actor_bulk/gen/actor.rs"]
pub mod actor;
