//! Recording stand-ins (see lib.rs). `will_apply` answers are ARBITRARY (one fresh bool per call,
//! logged): the handler must behave correctly whatever the set answers.
use core::cell::{Cell, UnsafeCell};
use core::marker::PhantomData;

use vcoll::vvec::VVec;

pub use crate::timestamp::HLCTimestamp;

pub type Key = u64;
pub type StateChanges = VVec<(Key, HLCTimestamp)>;
pub const NUM_SOURCES: usize = 2;
pub type DocVec<T> = VVec<T>;

#[derive(Copy, Clone, Debug, PartialEq)]
pub struct DocumentMetadata {
    pub id: Key,
    pub last_updated: HLCTimestamp,
}
#[derive(Clone, Debug, PartialEq)]
pub struct Document {
    pub metadata: DocumentMetadata,
}
impl Document {
    pub fn id(&self) -> Key {
        self.metadata.id
    }
    pub fn last_updated(&self) -> HLCTimestamp {
        self.metadata.last_updated
    }
}
pub struct PutContext;
pub struct Set<S> {
    pub source: usize,
    pub doc: Document,
    pub ctx: Option<PutContext>,
    pub _marker: PhantomData<S>,
}
pub struct MultiSet<S> {
    pub source: usize,
    pub docs: DocVec<Document>,
    pub ctx: Option<PutContext>,
    pub _marker: PhantomData<S>,
}
pub struct Del<S> {
    pub source: usize,
    pub doc: DocumentMetadata,
    pub _marker: PhantomData<S>,
}
pub struct MultiDel<S> {
    pub source: usize,
    pub docs: DocVec<DocumentMetadata>,
    pub _marker: PhantomData<S>,
}
pub struct PurgeDeletes<S>(pub PhantomData<S>);
pub struct Diff(pub OrSWotSet<NUM_SOURCES>);

pub use vcoll::sync::{Arc, AtomicCell};
pub struct Clock;
impl Clock {
    pub fn get_time(&self) -> HLCTimestamp {
        HLCTimestamp::from_u64(0)
    }
}

#[derive(Clone, Copy, PartialEq, Debug)]
pub struct SetOp {
    pub key: Key,
    pub stamp: u64,
    pub is_delete: bool,
    pub source: usize,
}
#[derive(Clone, Copy, PartialEq, Debug)]
pub struct Asked {
    pub key: Key,
    pub stamp: u64,
    pub answer: bool,
}
/// recording ORSWOT stand-in
pub struct OrSWotSet<const N: usize = 1> {
    pub asked: UnsafeCell<VVec<Asked>>,
    pub ops: VVec<SetOp>,
}
impl<const N: usize> OrSWotSet<N> {
    pub fn recording() -> Self {
        OrSWotSet { asked: UnsafeCell::new(VVec::new()), ops: VVec::new() }
    }
    pub fn asked(&self) -> &VVec<Asked> {
        unsafe { &*self.asked.get() }
    }
    pub fn will_apply(&self, key: Key, ts: HLCTimestamp) -> bool {
        let answer = <bool as vcoll::Havoc>::havoc();
        unsafe { (*self.asked.get()).push(Asked { key, stamp: ts.as_u64(), answer }) };
        answer
    }
    pub fn insert_with_source(&mut self, source: usize, k: Key, ts: HLCTimestamp) -> bool {
        self.ops.push(SetOp { key: k, stamp: ts.as_u64(), is_delete: false, source });
        true
    }
    pub fn delete_with_source(&mut self, source: usize, k: Key, ts: HLCTimestamp) -> bool {
        self.ops.push(SetOp { key: k, stamp: ts.as_u64(), is_delete: true, source });
        true
    }
    pub fn purge_old_deletes(&mut self) -> StateChanges {
        panic!("vcoll: not modelled in the bulk unit")
    }
    pub fn add_raw_tombstones(&mut self, _t: StateChanges) {
        panic!("vcoll: not modelled in the bulk unit")
    }
    pub fn diff(&self, _o: &OrSWotSet<N>) -> (StateChanges, StateChanges) {
        panic!("vcoll: not modelled in the bulk unit")
    }
}

pub struct BulkMutationError<E> {
    pub(crate) inner: E,
    pub(crate) successful_doc_ids: VVec<Key>,
}
impl<E> BulkMutationError<E> {
    pub fn successful_doc_ids(&self) -> &VVec<Key> {
        &self.successful_doc_ids
    }
}
#[derive(Debug)]
pub struct GhostError;

pub trait Storage {
    type Error;
    fn put_with_ctx(&self, keyspace: &str, document: Document, ctx: Option<&PutContext>) -> Result<(), Self::Error>;
    fn multi_put_with_ctx(&self, keyspace: &str, documents: impl Iterator<Item = Document>, ctx: Option<&PutContext>) -> Result<(), BulkMutationError<Self::Error>>;
    fn mark_as_tombstone(&self, keyspace: &str, doc_id: Key, timestamp: HLCTimestamp) -> Result<(), Self::Error>;
    fn mark_many_as_tombstone(&self, keyspace: &str, documents: impl Iterator<Item = DocumentMetadata>) -> Result<(), BulkMutationError<Self::Error>>;
    fn remove_tombstones(&self, keyspace: &str, keys: impl Iterator<Item = Key>) -> Result<(), BulkMutationError<Self::Error>>;
}

/// recording store: logs every item it is handed (in order) and whether it wrote it
#[derive(Clone, Copy, PartialEq, Debug)]
pub struct Handed {
    pub key: Key,
    pub stamp: u64,
    pub is_delete: bool,
    pub written: bool,
}
pub struct RecStore {
    pub handed: UnsafeCell<VVec<Handed>>,
    pub calls: Cell<usize>,
}
impl RecStore {
    pub fn new() -> Self {
        RecStore { handed: UnsafeCell::new(VVec::new()), calls: Cell::new(0) }
    }
    pub fn handed(&self) -> &VVec<Handed> {
        unsafe { &*self.handed.get() }
    }
    fn bulk(&self, items: impl Iterator<Item = (Key, u64, bool)>) -> Result<(), BulkMutationError<GhostError>> {
        self.calls.set(self.calls.get() + 1);
        let mut ok_ids = VVec::new();
        let mut failed = false;
        for (key, stamp, is_delete) in items {
            let written = !<bool as vcoll::Havoc>::havoc();
            if written {
                ok_ids.push(key);
            } else {
                failed = true;
            }
            unsafe { (*self.handed.get()).push(Handed { key, stamp, is_delete, written }) };
        }
        // a bulk call may also fail after having written everything it was handed
        if failed || <bool as vcoll::Havoc>::havoc() {
            Err(BulkMutationError { inner: GhostError, successful_doc_ids: ok_ids })
        } else {
            Ok(())
        }
    }
}
impl Storage for RecStore {
    type Error = GhostError;
    fn put_with_ctx(&self, _k: &str, _d: Document, _c: Option<&PutContext>) -> Result<(), GhostError> {
        panic!("vcoll: not modelled in the bulk unit")
    }
    fn mark_as_tombstone(&self, _k: &str, _id: Key, _t: HLCTimestamp) -> Result<(), GhostError> {
        panic!("vcoll: not modelled in the bulk unit")
    }
    fn remove_tombstones(&self, _k: &str, _keys: impl Iterator<Item = Key>) -> Result<(), BulkMutationError<GhostError>> {
        panic!("vcoll: not modelled in the bulk unit")
    }
    fn multi_put_with_ctx(&self, _k: &str, documents: impl Iterator<Item = Document>, _c: Option<&PutContext>) -> Result<(), BulkMutationError<GhostError>> {
        self.bulk(documents.map(|d| (d.id(), d.last_updated().as_u64(), false)))
    }
    fn mark_many_as_tombstone(&self, _k: &str, documents: impl Iterator<Item = DocumentMetadata>) -> Result<(), BulkMutationError<GhostError>> {
        self.bulk(documents.map(|d| (d.id, d.last_updated.as_u64(), true)))
    }
}
