// ---- prelude: constants sliced from keyspace/mod.rs and poller.rs --------------------------------
// ---- end of prelude ---------------------------------------------------------------------------
