//! C05 (repair glue), class B (lists <= 3): what handle_removals / handle_modified hand to the keyspace actor.
//!   handle_removals(removed): [] -> nothing; [d] -> exactly one Del{read-repair source, d}; longer -> exactly one
//!     MultiDel{read-repair source, removed in order}; a failed send is reported and delivers nothing.
//!   handle_modified(modified): the ids of `modified` are fetched from the peer in order (one chunk below the 50 000 chunk size),
//!     the fetched documents go to the actor as exactly one MultiSet{read-repair source, docs, ctx}; progress is registered
//!     once per chunk and marked done; an empty list fetches and sends nothing; a failed fetch or send is reported.
use super::*;
use vcoll::Havoc;

type St = NoStore;
const MAXN: usize = 3;

fn reset() {
    unsafe {
        SENT = Some(Vec::new());
        FETCHED = Some(Vec::new());
        SEND_CALLS = 0;
        FAIL_SEND_AT = usize::MAX;
        FAIL_FETCH = false;
    }
    PROGRESS.0.registered.set(0);
    PROGRESS.0.done.set(false);
}
fn any_metas() -> ([DocumentMetadata; MAXN], usize) {
    let mut a = [DocumentMetadata { id: 0, last_updated: HLCTimestamp::from_u64(0) }; MAXN];
    let mut i = 0;
    while i < MAXN {
        a[i] = DocumentMetadata { id: kani::any(), last_updated: HLCTimestamp::havoc() };
        i += 1;
    }
    let n: usize = kani::any();
    kani::assume(n <= MAXN);
    (a, n)
}
fn to_vec(a: &[DocumentMetadata; MAXN], n: usize) -> DocVec<DocumentMetadata> {
    let mut v = DocVec::new();
    let mut i = 0;
    while i < MAXN {
        if i < n {
            v.push(a[i]);
        }
        i += 1;
    }
    v
}

#[kani::proof]
#[kani::unwind(6)]
fn pg_handle_removals() {
    reset();
    let (a, n) = any_metas();
    let fail: bool = kani::any();
    if fail {
        unsafe { FAIL_SEND_AT = 0 };
    }
    assert!(READ_REPAIR_SOURCE_ID != 0 && READ_REPAIR_SOURCE_ID < 2, "the read-repair source is a source of its own");
    let r = handle_removals::<St>(ActorMailbox::new(), to_vec(&a, n));
    let sent = unsafe { SENT.as_ref().unwrap() };
    if n == 0 {
        assert!(r.is_ok() && sent.len() == 0, "nothing to remove: nothing is sent");
        return;
    }
    if fail {
        assert!(r.is_err() && sent.len() == 0, "a failed delivery is reported");
        kani::cover!(n == 2, "failed bulk delivery");
        return;
    }
    assert!(r.is_ok());
    assert!(sent.len() == 1, "the removals go to the keyspace in exactly one message");
    match &sent[0] {
        Sent::Del { source, doc } => {
            assert!(n == 1, "a single removal goes through Del");
            assert!(*source == READ_REPAIR_SOURCE_ID, "on the read-repair source");
            assert!(*doc == a[0], "carrying the peer's id and timestamp");
            kani::cover!(true, "single removal");
        },
        Sent::MultiDel { source, docs } => {
            assert!(n >= 2);
            assert!(*source == READ_REPAIR_SOURCE_ID, "on the read-repair source");
            assert!(docs.len() == n, "every listed removal is sent, once");
            let mut i = 0;
            while i < MAXN {
                if i < n {
                    assert!(docs[i] == a[i], "carrying the peer's ids and timestamps, in order");
                }
                i += 1;
            }
            kani::cover!(n == 3, "three removals");
        },
        Sent::MultiSet { .. } => panic!("removals are never sent as modifications"),
    }
}

#[kani::proof]
#[kani::unwind(6)]
fn pg_handle_modified() {
    reset();
    let (a, n) = any_metas();
    let fail_fetch: bool = kani::any();
    let fail_send: bool = kani::any();
    unsafe {
        FAIL_FETCH = fail_fetch;
        if fail_send {
            FAIL_SEND_AT = 0;
        }
    }
    let ctx = PutContext { progress: &PROGRESS.0 };
    let r = handle_modified::<St>(ReplicationClient(PhantomData), ActorMailbox::new(), to_vec(&a, n), ctx);
    let sent = unsafe { SENT.as_ref().unwrap() };
    let fetched = unsafe { FETCHED.as_ref().unwrap() };
    if n == 0 {
        assert!(r.is_ok() && sent.len() == 0 && fetched.len() == 0, "nothing modified: nothing is fetched or sent");
        assert!(PROGRESS.0.done.get(), "progress is completed");
        return;
    }
    if fail_fetch {
        assert!(r.is_err() && sent.len() == 0, "a failed fetch is reported and nothing is applied");
        return;
    }
    assert!(fetched.len() == 1 && fetched[0].len() == n, "the listed ids are fetched from the peer, once");
    let mut i = 0;
    while i < MAXN {
        if i < n {
            assert!(fetched[0][i] == a[i].id, "exactly the listed ids, in order");
        }
        i += 1;
    }
    if fail_send {
        assert!(r.is_err() && sent.len() == 0, "a failed delivery is reported");
        return;
    }
    assert!(r.is_ok());
    assert!(sent.len() == 1, "the fetched documents go to the keyspace in exactly one message per chunk");
    match &sent[0] {
        Sent::MultiSet { source, docs, has_ctx } => {
            assert!(*source == READ_REPAIR_SOURCE_ID, "on the read-repair source");
            assert!(*has_ctx, "with the repair context");
            assert!(docs.len() == n, "every fetched document is applied");
            let mut i = 0;
            while i < MAXN {
                if i < n {
                    assert!(docs[i].metadata.id == a[i].id, "the documents fetched for the listed ids, in order");
                }
                i += 1;
            }
        },
        _ => panic!("modifications are never sent as removals"),
    }
    assert!(PROGRESS.0.registered.get() == 1 && PROGRESS.0.done.get(), "progress registered per chunk and completed");
    kani::cover!(n == 3, "three modified documents");
}

// native replay of Kani counterexamples (tools/replay.py writes the file)
#[cfg(verif_replay)]
include!("/verif/build/poller_glue/replay_tests.rs");
