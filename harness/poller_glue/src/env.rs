//! Stand-ins for what the two repair functions of poller.rs use (trusted, listed in evidence): message structs mirroring
//! keyspace/messages.rs, a RECORDING actor mailbox, a peer client that returns arbitrary documents for the ids it is asked for.
use core::marker::PhantomData;

use vcoll::vvec::VVec;

pub use crate::timestamp::HLCTimestamp;

pub type Key = u64;
pub type DocVec<T> = VVec<T>;

#[derive(Copy, Clone, Debug, PartialEq)]
pub struct DocumentMetadata {
    pub id: Key,
    pub last_updated: HLCTimestamp,
}
#[derive(Clone, Debug, PartialEq)]
pub struct Document {
    pub metadata: DocumentMetadata,
}

/// progress tracker of a repair: counts what the function reports
pub struct Progress {
    pub registered: core::cell::Cell<usize>,
    pub done: core::cell::Cell<bool>,
}
impl Progress {
    pub fn register_progress(&self) {
        self.registered.set(self.registered.get() + 1)
    }
    pub fn set_done(&self) {
        self.done.set(true)
    }
}
pub static PROGRESS: ProgressCell = ProgressCell(Progress { registered: core::cell::Cell::new(0), done: core::cell::Cell::new(false) });
pub struct ProgressCell(pub Progress);
unsafe impl Sync for ProgressCell {}
#[derive(Clone)]
pub struct PutContext {
    pub progress: &'static Progress,
}

pub struct MultiSet<S> {
    pub source: usize,
    pub docs: DocVec<Document>,
    pub ctx: Option<PutContext>,
    pub _marker: PhantomData<S>,
}
pub struct Del<S> {
    pub source: usize,
    pub doc: DocumentMetadata,
    pub _marker: PhantomData<S>,
}
pub struct MultiDel<S> {
    pub source: usize,
    pub docs: DocVec<DocumentMetadata>,
    pub _marker: PhantomData<S>,
}

/// what reached the keyspace actor, in order
pub enum Sent {
    Del { source: usize, doc: DocumentMetadata },
    MultiDel { source: usize, docs: DocVec<DocumentMetadata> },
    MultiSet { source: usize, docs: DocVec<Document>, has_ctx: bool },
}
pub static mut SENT: Option<VVec<Sent>> = None;
/// the send that fails (usize::MAX = none): a failed send delivers nothing
pub static mut FAIL_SEND_AT: usize = usize::MAX;
pub static mut SEND_CALLS: usize = 0;

pub trait Message {
    fn record(self) -> Sent;
}
impl<S> Message for Del<S> {
    fn record(self) -> Sent {
        Sent::Del { source: self.source, doc: self.doc }
    }
}
impl<S> Message for MultiDel<S> {
    fn record(self) -> Sent {
        Sent::MultiDel { source: self.source, docs: self.docs }
    }
}
impl<S> Message for MultiSet<S> {
    fn record(self) -> Sent {
        Sent::MultiSet { source: self.source, docs: self.docs, has_ctx: self.ctx.is_some() }
    }
}

pub mod anyhow {
    /// `anyhow::Error` stand-in: an opaque error
    #[derive(Debug)]
    pub struct Error;
}
pub struct KeyspaceActor<S>(PhantomData<S>);
pub struct ActorMailbox<A> {
    _a: PhantomData<A>,
}
impl<A> Clone for ActorMailbox<A> {
    fn clone(&self) -> Self {
        ActorMailbox { _a: PhantomData }
    }
}
impl<A> ActorMailbox<A> {
    pub fn new() -> Self {
        ActorMailbox { _a: PhantomData }
    }
    pub fn name(&self) -> &'static str {
        "ks"
    }
    pub fn send<M: Message>(&self, msg: M) -> Result<(), anyhow::Error> {
        unsafe {
            let k = SEND_CALLS;
            SEND_CALLS += 1;
            if k == FAIL_SEND_AT {
                return Err(anyhow::Error);
            }
            if SENT.is_none() {
                SENT = Some(VVec::new());
            }
            SENT.as_mut().unwrap().push(msg.record());
        }
        Ok(())
    }
}

pub trait Storage {}
pub struct NoStore;
impl Storage for NoStore {}

/// peer client: records the id lists it is asked for; returns one document per requested id (with an arbitrary stamp),
/// or fails (arbitrarily)
pub static mut FETCHED: Option<VVec<VVec<Key>>> = None;
pub static mut FAIL_FETCH: bool = false;
pub struct ReplicationClient<S>(pub PhantomData<S>);
impl<S> ReplicationClient<S> {
    pub fn fetch_docs(&mut self, _keyspace: &str, doc_ids: VVec<Key>) -> Result<VVec<Document>, anyhow::Error> {
        unsafe {
            if FAIL_FETCH {
                return Err(anyhow::Error);
            }
            let mut out = VVec::new();
            for id in doc_ids.iter() {
                out.push(Document { metadata: DocumentMetadata { id: *id, last_updated: <HLCTimestamp as vcoll::Havoc>::havoc() } });
            }
            if FETCHED.is_none() {
                FETCHED = Some(VVec::new());
            }
            FETCHED.as_mut().unwrap().push(doc_ids);
            Ok(out)
        }
    }
}

pub struct Instant;
impl Instant {
    pub fn now() -> Self {
        Instant
    }
    pub fn elapsed(&self) -> u64 {
        0
    }
}
