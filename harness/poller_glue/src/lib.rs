//! Unit `poller_glue` (C05, repair glue): contracts on handle_removals / handle_modified sliced verbatim from
//! /repo/datacake-eventual-consistency/src/replication/poller.rs (async/await de-sugared), checked against recording stand-ins:
//! the contract is WHICH messages reach the keyspace actor (kind, source, documents, order) and WHICH ids are fetched from the peer.
#![allow(dead_code, unused_imports)]

#[path = "/repo/datacake-crdt/src/timestamp.rs"]
pub mod timestamp;
pub use timestamp::HLCTimestamp;

impl vcoll::Havoc for HLCTimestamp {
    #[cfg(kani)]
    fn havoc() -> Self {
        let t = HLCTimestamp::from_u64(kani::any());
        kani::assume(t.fractional() < 250);
        t
    }
    #[cfg(not(kani))]
    fn havoc() -> Self {
        unreachable!()
    }
}

pub mod env;

#[path = "/verif/build/poller_glue/gen/consts.rs"]
pub mod consts;
#[path = "/verif/build/poller_glue/gen/glue.rs"]
pub mod glue;
