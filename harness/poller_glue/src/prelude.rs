// ---- prelude for poller.rs slices ------------------------------------------------------------------
use std::marker::PhantomData;

use vcoll::vvec::VVec as Vec;

use crate::consts::*;
use crate::env::*;

#[allow(unused_macros)]
macro_rules! debug {
    ($($t:tt)*) => {};
}
#[allow(unused_macros)]
macro_rules! info {
    ($($t:tt)*) => {};
}
// ---- end of prelude ---------------------------------------------------------------------------
