//! Unit `orswot_b` (bounded obligations of the iterating functions): contracts on the verbatim text of /repo/datacake-crdt/src/orswot.rs.
//! The generated copy (build/orswot/gen/orswot.rs) differs from the source only in its
//! `use std::collections...` lines (redirected to vcoll) and one appended `mod` line that
//! mounts contracts.rs as a child module (so it can see private fields and functions).
#![allow(dead_code, unused_imports)]

#[path = "/repo/datacake-crdt/src/timestamp.rs"]
pub mod timestamp;

#[path = "/verif/build/orswot_b/gen/orswot.rs"]
pub mod orswot;

#[path = "/verif/contracts/kernels.rs"]
pub mod kernels;

pub use timestamp::HLCTimestamp;

impl vcoll::Havoc for HLCTimestamp {
    /// any stamp satisfying the type invariant (4 ms fraction below 250)
    #[cfg(kani)]
    fn havoc() -> Self {
        let t = HLCTimestamp::from_u64(kani::any());
        kani::assume(t.fractional() < 250);
        t
    }
    #[cfg(not(kani))]
    fn havoc() -> Self {
        unreachable!()
    }
}
