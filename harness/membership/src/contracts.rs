//! C16 contract of watch_membership_changes, class B: two consecutive snapshots over the id
//! universe {0 = self, 1, 2}; the first is ARBITRARY (so the second iteration is the step
//! prev -> cur from an arbitrary previous state), each member has one of two addresses (address change)
//! and one of two data centres.
//!   joined(prev,cur) = members of cur (other than self) whose (id, addr) is not in prev, as in cur
//!   left(prev,cur)   = members of prev (other than self) whose (id, addr) is not in cur, AS IN PREV
//!   set_nodes gets exactly the data-centre layout of cur; every departed address is disconnected;
//!   a consumer that removes `left` then inserts `joined` holds exactly others(cur).
use super::*;

const NID: usize = 2;
const SELF_ID: NodeId = 0;
/// identities of the data-centre names "a" and "b"
const DCS: [DcName; 2] = [DcName(0x6100_0000_0000_0001), DcName(0x6200_0000_0000_0001)];

#[derive(Clone, Copy)]
struct AbsMember {
    present: bool,
    alt_addr: bool,
    dc: u8,
}
type AbsSnap = [AbsMember; NID];

fn any_snap() -> AbsSnap {
    let mut s = [AbsMember { present: false, alt_addr: false, dc: 0 }; NID];
    let mut i = 0;
    while i < NID {
        s[i] = AbsMember { present: kani::any(), alt_addr: kani::any(), dc: kani::any() };
        kani::assume(s[i].dc < 2);
        i += 1;
    }
    s
}
fn addr_of(id: usize, alt: bool) -> SocketAddr {
    vcoll::vkey::OpaqueId(((10u64 << 24 | id as u64) << 16) | if alt { 9002 } else { 9001 })
}
fn member_of(id: usize, m: &AbsMember) -> ClusterMember {
    let dc = if m.dc == 0 { DCS[0] } else { DCS[1] };
    ClusterMember { node_id: id as NodeId, public_addr: addr_of(id, m.alt_addr), data_center: dc }
}
fn build(s: &AbsSnap) -> NodeMembership {
    let mut m = NodeMembership::new();
    let mut i = 0;
    while i < NID {
        if s[i].present {
            m.insert(i as NodeId, member_of(i, &s[i]));
        }
        i += 1;
    }
    m
}
/// (id, addr) of `s[i]` is in the "other nodes" set of snapshot t
fn pair_in(s: &AbsSnap, i: usize, t: &AbsSnap) -> bool {
    i != SELF_ID as usize && t[i].present && t[i].alt_addr == s[i].alt_addr
}
fn count_member(v: &Vec<ClusterMember>, m: &ClusterMember) -> usize {
    let mut c = 0;
    for x in v.iter() {
        if x == m {
            c += 1;
        }
    }
    c
}

fn check_delta(d: &MembershipChange, prev: &AbsSnap, cur: &AbsSnap) {
    let mut nj = 0;
    let mut nl = 0;
    let mut i = 1;
    while i < NID {
        let joined = cur[i].present && !pair_in(cur, i, prev);
        let left = prev[i].present && !pair_in(prev, i, cur);
        if joined {
            assert!(count_member(&d.joined, &member_of(i, &cur[i])) == 1, "a node that appeared (or changed address) is reported as joined, as it is now");
            nj += 1;
        }
        if left {
            assert!(count_member(&d.left, &member_of(i, &prev[i])) == 1, "a node that disappeared is reported as having left, with the address it had");
            nl += 1;
        }
        i += 1;
    }
    assert!(d.joined.len() == nj && d.left.len() == nl, "nothing else is reported");
}

#[kani::proof]
#[kani::unwind(5)]
fn mb_delta_step() {
    let prev = any_snap();
    let cur = any_snap();
    let mut items = Vec::new();
    items.push(build(&prev));
    items.push(build(&cur));
    let network = RpcNetwork::new();
    let selector = NodeSelectorHandle::new();
    let stats = ClusterStatistics::new();
    let tx = watch::Sender::<MembershipChange>::new();
    watch_membership_changes(SELF_ID, network.clone(), selector.clone(), stats.clone(), WatchStream::from_items(items), tx.clone());
    let log = tx.log();
    assert!(log.len() == 2, "one change event per snapshot");
    let empty = [AbsMember { present: false, alt_addr: false, dc: 0 }; NID];
    check_delta(&log[0], &empty, &prev);
    check_delta(&log[1], &prev, &cur);

    // consumer fold (distributor.rs / poller.rs: remove `left`, then insert `joined`) == others(cur)
    let mut live: [Option<SocketAddr>; NID] = [None; NID];
    for d in log.iter() {
        for m in d.left.iter() {
            live[m.node_id as usize] = None;
        }
        for m in d.joined.iter() {
            live[m.node_id as usize] = Some(m.public_addr);
        }
    }
    let mut i = 1;
    while i < NID {
        let want = if cur[i].present { Some(addr_of(i, cur[i].alt_addr)) } else { None };
        assert!(live[i] == want, "events add up to the live membership");
        i += 1;
    }

    // every departed address is disconnected (second transition)
    let mut i = 1;
    let mut want_disc = 0;
    while i < NID {
        if prev[i].present && !pair_in(&prev, i, &cur) {
            assert!(network.log().contains(&addr_of(i, prev[i].alt_addr)));
            want_disc += 1;
        }
        i += 1;
    }
    assert!(network.log().len() == want_disc, "only departed addresses are disconnected");

    // set_nodes receives exactly the data-centre layout of cur (second call)
    let layouts = selector.log();
    assert!(layouts.len() == 2);
    let lay = &layouts[1];
    let mut d = 0;
    let mut ndc = 0;
    while d < 2 {
        let mut want = 0;
        let mut i = 0;
        while i < NID {
            if cur[i].present && cur[i].dc as usize == d {
                want += 1;
                let got = lay.get(&DCS[d]).map(|ns| ns.contains(&addr_of(i, cur[i].alt_addr)));
                assert!(got == Some(true), "every current member is in its data centre's node list");
            }
            i += 1;
        }
        let got_len = lay.get(&DCS[d]).map(|ns| ns.len()).unwrap_or(0);
        assert!(got_len == want, "and nobody else");
        if want > 0 {
            ndc += 1;
        }
        d += 1;
    }
    assert!(lay.len() == ndc, "no stale data centre in the layout");
    kani::cover!(prev[1].present && !cur[1].present, "a node leaves");
    kani::cover!(!prev[1].present && cur[1].present, "a node joins");
    kani::cover!(prev[1].present && cur[1].present && prev[1].dc != cur[1].dc && prev[1].alt_addr == cur[1].alt_addr, "data centre change only");
    kani::cover!(prev[1].present && cur[1].present && prev[1].alt_addr != cur[1].alt_addr, "address change");
}

/// D6 (KNOWN FINDING, see known_findings.txt): the deltas travel on a LATEST-VALUE channel (tokio::sync::watch). Concrete history:
/// node 1 joins (first change), then a second snapshot with the same membership is processed before the subscriber reads.
/// A subscriber that reads only then is handed the latest delta alone (empty) and never learns about node 1, although the
/// property promises the live membership "no matter how slowly it reads". Demonstrated on the real tokio channel and the real
/// function in notes/D6_demo.diff. This obligation FAILS on the pinned tree by design and is reported as KNOWN-FINDING.
#[kani::proof]
#[kani::unwind(5)]
fn mb_slow_subscriber() {
    let m1 = AbsMember { present: true, alt_addr: false, dc: 0 };
    let me = AbsMember { present: true, alt_addr: false, dc: 0 };
    let snap: AbsSnap = [me, m1];
    let mut items = Vec::new();
    items.push(build(&snap));
    items.push(build(&snap));
    let network = RpcNetwork::new();
    let selector = NodeSelectorHandle::new();
    let stats = ClusterStatistics::new();
    let tx = watch::Sender::<MembershipChange>::new();
    watch_membership_changes(SELF_ID, network.clone(), selector.clone(), stats.clone(), WatchStream::from_items(items), tx.clone());
    // what a receiver that reads now is handed: the latest value only
    let mut live: [Option<SocketAddr>; NID] = [None; NID];
    if let Some(d) = tx.latest() {
        for m in d.left.iter() {
            live[m.node_id as usize] = None;
        }
        for m in d.joined.iter() {
            live[m.node_id as usize] = Some(m.public_addr);
        }
    }
    assert!(live[1] == Some(addr_of(1, false)), "D6: a subscriber that reads after two membership changes were published holds the live membership");
}

// native replay of Kani counterexamples (tools/replay.py writes the file)
#[cfg(verif_replay)]
include!("/verif/build/membership/replay_tests.rs");
