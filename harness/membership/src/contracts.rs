//! C16 contract of watch_membership_changes, class B: two consecutive snapshots over the id
//! universe {0 = self, 1, 2}; the first is ARBITRARY within the bound (so the second iteration is the step
//! prev -> cur from an arbitrary previous state). WHO is present in which snapshot is concrete per harness
//! (16 presence patterns of the two other nodes: `mb_step_<p1><p2><c1><c2>`), everything else is symbolic:
//! each present member has one of THREE addresses from a shared pool (address change, and an address
//! taken over by another node id, are covered; members of one snapshot have distinct addresses) and one of two data centres.
//!   joined(prev,cur) = members of cur (other than self) whose (id, addr) is not in prev, as in cur
//!   left(prev,cur)   = members of prev (other than self) whose (id, addr) is not in cur, AS IN PREV
//!   set_nodes gets exactly the data-centre layout of cur; every departed address that nobody uses any more is
//!   disconnected and nothing but departed addresses is; a consumer that removes `left` then inserts `joined` holds exactly others(cur).
use super::*;

const NID: usize = 3;
const SELF_ID: NodeId = 0;
/// identities of the data-centre names "a" and "b"
const DCS: [DcName; 2] = [DcName(0x6100_0000_0000_0001), DcName(0x6200_0000_0000_0001)];

#[derive(Clone, Copy)]
struct AbsMember {
    present: bool,
    /// index into the shared address pool
    addr: u8,
    dc: u8,
}
type AbsSnap = [AbsMember; NID];
const ABSENT: AbsMember = AbsMember { present: false, addr: 0, dc: 0 };

/// a snapshot with the given (concrete) presence of nodes 1 and 2; self is always a member; addresses and data centres arbitrary
fn any_snap(p1: bool, p2: bool) -> AbsSnap {
    let present = [true, p1, p2];
    let mut s = [ABSENT; NID];
    let mut i = 0;
    while i < NID {
        if present[i] {
            s[i] = AbsMember { present: true, addr: kani::any(), dc: kani::any() };
            kani::assume(s[i].dc < 2 && s[i].addr < 3);
        }
        i += 1;
    }
    // live members of one snapshot do not share an address
    kani::assume(!(s[0].present && s[1].present && s[0].addr == s[1].addr));
    kani::assume(!(s[0].present && s[2].present && s[0].addr == s[2].addr));
    kani::assume(!(s[1].present && s[2].present && s[1].addr == s[2].addr));
    s
}
fn addr_of(a: u8) -> SocketAddr {
    vcoll::vkey::OpaqueId(((10u64 << 24) << 16) | (9001 + a as u64))
}
fn member_of(id: usize, m: &AbsMember) -> ClusterMember {
    let dc = if m.dc == 0 { DCS[0] } else { DCS[1] };
    ClusterMember { node_id: id as NodeId, public_addr: addr_of(m.addr), data_center: dc }
}
fn build(s: &AbsSnap) -> NodeMembership {
    let mut m = NodeMembership::new();
    let mut i = 0;
    while i < NID {
        if s[i].present {
            m.insert(i as NodeId, member_of(i, &s[i]));
        }
        i += 1;
    }
    m
}
/// (id, addr) of `s[i]` is in the "other nodes" set of snapshot t
fn pair_in(s: &AbsSnap, i: usize, t: &AbsSnap) -> bool {
    i != SELF_ID as usize && t[i].present && t[i].addr == s[i].addr
}
fn addr_used(a: u8, t: &AbsSnap) -> bool {
    (t[0].present && t[0].addr == a) || (t[1].present && t[1].addr == a) || (t[2].present && t[2].addr == a)
}
fn count_member(v: &Vec<ClusterMember>, m: &ClusterMember) -> usize {
    let mut c = 0;
    for x in v.iter() {
        if x == m {
            c += 1;
        }
    }
    c
}

fn check_delta(d: &MembershipChange, prev: &AbsSnap, cur: &AbsSnap) {
    let mut nj = 0;
    let mut nl = 0;
    let mut i = 1;
    while i < NID {
        let joined = cur[i].present && !pair_in(cur, i, prev);
        let left = prev[i].present && !pair_in(prev, i, cur);
        if joined {
            assert!(count_member(&d.joined, &member_of(i, &cur[i])) == 1, "a node that appeared (or changed address) is reported as joined, as it is now");
            nj += 1;
        }
        if left {
            assert!(count_member(&d.left, &member_of(i, &prev[i])) == 1, "a node that disappeared is reported as having left, with the address it had");
            nl += 1;
        }
        i += 1;
    }
    assert!(d.joined.len() == nj && d.left.len() == nl, "nothing else is reported");
}

fn delta_step(pp1: bool, pp2: bool, cp1: bool, cp2: bool) {
    let prev = any_snap(pp1, pp2);
    let cur = any_snap(cp1, cp2);
    let mut items = Vec::new();
    items.push(build(&prev));
    items.push(build(&cur));
    let network = RpcNetwork::new();
    let selector = NodeSelectorHandle::new();
    let stats = ClusterStatistics::new();
    let tx = watch::Sender::<MembershipChange>::new();
    watch_membership_changes(SELF_ID, network.clone(), selector.clone(), stats.clone(), WatchStream::from_items(items), tx.clone());
    let log = tx.log();
    assert!(log.len() == 2, "one change event per snapshot");
    let empty = [ABSENT; NID];
    check_delta(&log[0], &empty, &prev);
    check_delta(&log[1], &prev, &cur);

    // consumer fold (distributor.rs / poller.rs: remove `left`, then insert `joined`) == others(cur)
    let mut live: [Option<SocketAddr>; NID] = [None; NID];
    for d in log.iter() {
        for m in d.left.iter() {
            live[m.node_id as usize] = None;
        }
        for m in d.joined.iter() {
            live[m.node_id as usize] = Some(m.public_addr);
        }
    }
    let mut i = 1;
    while i < NID {
        let want = if cur[i].present { Some(addr_of(cur[i].addr)) } else { None };
        assert!(live[i] == want, "events add up to the live membership");
        i += 1;
    }

    // second transition: a departed address nobody uses any more is disconnected; nothing but departed addresses is
    let mut i = 1;
    while i < NID {
        if prev[i].present && !pair_in(&prev, i, &cur) && !addr_used(prev[i].addr, &cur) {
            assert!(network.log().contains(&addr_of(prev[i].addr)), "the connection to a departed address is dropped");
        }
        i += 1;
    }
    for a in network.log().iter() {
        let mut departed = false;
        let mut i = 1;
        while i < NID {
            if prev[i].present && !pair_in(&prev, i, &cur) && addr_of(prev[i].addr) == *a {
                departed = true;
            }
            i += 1;
        }
        assert!(departed, "only departed addresses are disconnected");
    }

    // set_nodes receives exactly the data-centre layout of cur (second call)
    let layouts = selector.log();
    assert!(layouts.len() == 2);
    let lay = &layouts[1];
    let mut d = 0;
    let mut ndc = 0;
    while d < 2 {
        let mut want = 0;
        let mut i = 0;
        while i < NID {
            if cur[i].present && cur[i].dc as usize == d {
                want += 1;
                let got = lay.get(&DCS[d]).map(|ns| ns.contains(&addr_of(cur[i].addr)));
                assert!(got == Some(true), "every current member is in its data centre's node list");
            }
            i += 1;
        }
        let got_len = lay.get(&DCS[d]).map(|ns| ns.len()).unwrap_or(0);
        assert!(got_len == want, "and nobody else");
        if want > 0 {
            ndc += 1;
        }
        d += 1;
    }
    assert!(lay.len() == ndc, "no stale data centre in the layout");
    // vacuity guards, per presence pattern
    kani::cover!(true, "pattern reachable");
    if pp1 && cp1 {
        kani::cover!(prev[1].addr != cur[1].addr, "address change");
        kani::cover!(prev[1].addr == cur[1].addr && prev[1].dc != cur[1].dc, "data centre change only");
    }
    if pp1 && !cp1 && cp2 && !pp2 {
        kani::cover!(prev[1].addr == cur[2].addr, "a departed node's address is taken over by a node that joins");
    }
}

macro_rules! step_harness {
    ($name:ident, $a:expr, $b:expr, $c:expr, $d:expr) => {
        #[kani::proof]
        #[kani::unwind(6)]
        fn $name() {
            delta_step($a, $b, $c, $d);
        }
    };
}
// mb_step_<prev1><prev2><cur1><cur2>: presence of nodes 1 and 2 in the previous and the current snapshot
step_harness!(mb_step_0000, false, false, false, false);
step_harness!(mb_step_0001, false, false, false, true);
step_harness!(mb_step_0010, false, false, true, false);
step_harness!(mb_step_0011, false, false, true, true);
step_harness!(mb_step_0100, false, true, false, false);
step_harness!(mb_step_0101, false, true, false, true);
step_harness!(mb_step_0110, false, true, true, false);
step_harness!(mb_step_0111, false, true, true, true);
step_harness!(mb_step_1000, true, false, false, false);
step_harness!(mb_step_1001, true, false, false, true);
step_harness!(mb_step_1010, true, false, true, false);
step_harness!(mb_step_1011, true, false, true, true);
step_harness!(mb_step_1100, true, true, false, false);
step_harness!(mb_step_1101, true, true, false, true);
step_harness!(mb_step_1110, true, true, true, false);
step_harness!(mb_step_1111, true, true, true, true);

/// D6 (KNOWN FINDING, see known_findings.txt): the deltas travel on a LATEST-VALUE channel (tokio::sync::watch). Concrete history:
/// node 1 joins (first change), then a second snapshot with the same membership is processed before the subscriber reads.
/// A subscriber that reads only then is handed the latest delta alone (empty) and never learns about node 1, although the
/// property promises the live membership "no matter how slowly it reads". Demonstrated on the real tokio channel and the real
/// function in notes/D6_demo.diff. This obligation FAILS on the pinned tree by design and is reported as KNOWN-FINDING.
#[kani::proof]
#[kani::unwind(6)]
fn mb_slow_subscriber() {
    let m1 = AbsMember { present: true, addr: 1, dc: 0 };
    let me = AbsMember { present: true, addr: 0, dc: 0 };
    let snap: AbsSnap = [me, m1, ABSENT];
    let mut items = Vec::new();
    items.push(build(&snap));
    items.push(build(&snap));
    let network = RpcNetwork::new();
    let selector = NodeSelectorHandle::new();
    let stats = ClusterStatistics::new();
    let tx = watch::Sender::<MembershipChange>::new();
    watch_membership_changes(SELF_ID, network.clone(), selector.clone(), stats.clone(), WatchStream::from_items(items), tx.clone());
    // what a receiver that reads now is handed: the latest value only
    let mut live: [Option<SocketAddr>; NID] = [None; NID];
    if let Some(d) = tx.latest() {
        for m in d.left.iter() {
            live[m.node_id as usize] = None;
        }
        for m in d.joined.iter() {
            live[m.node_id as usize] = Some(m.public_addr);
        }
    }
    assert!(live[1] == Some(addr_of(1)), "D6: a subscriber that reads after two membership changes were published holds the live membership");
}

// native replay of Kani counterexamples (tools/replay.py writes the file)
#[cfg(verif_replay)]
include!("/verif/build/membership/replay_tests.rs");
