//! C16 contract of watch_membership_changes, class B: two consecutive snapshots over the id
//! universe {0 = self, 1, 2}; the first is ARBITRARY (so the second iteration is the step
//! prev -> cur from an arbitrary previous state), each member has one of two addresses (address change)
//! and one of two data centres.
//!   joined(prev,cur) = members of cur (other than self) whose (id, addr) is not in prev, as in cur
//!   left(prev,cur)   = members of prev (other than self) whose (id, addr) is not in cur, AS IN PREV
//!   set_nodes gets exactly the data-centre layout of cur; every departed address is disconnected;
//!   a consumer that removes `left` then inserts `joined` holds exactly others(cur).
use super::*;
use std::net::{IpAddr, Ipv4Addr};

const NID: usize = 3;
const SELF_ID: NodeId = 0;
const DCS: [&str; 2] = ["a", "b"];

#[derive(Clone, Copy)]
struct AbsMember {
    present: bool,
    alt_addr: bool,
    dc: u8,
}
type AbsSnap = [AbsMember; NID];

/// presence pattern is CONCRETE per harness (bit i of `bits` = node i present; self always present):
/// with symbolic presence the symbolic execution of the map/vector stand-ins did not finish in 20 min.
/// Addresses and data centres stay symbolic.
fn snap(present_bits: u8, alt_bits: u8) -> AbsSnap {
    let mut s = [AbsMember { present: false, alt_addr: false, dc: 0 }; NID];
    let mut i = 0;
    while i < NID {
        let present = i == 0 || (present_bits >> i) & 1 == 1;
        let alt = (alt_bits >> i) & 1 == 1;
        s[i] = AbsMember { present, alt_addr: alt, dc: kani::any() };
        kani::assume(s[i].dc < 2);
        i += 1;
    }
    s
}
fn addr_of(id: usize, alt: bool) -> SocketAddr {
    SocketAddr::new(IpAddr::V4(Ipv4Addr::new(10, 0, 0, id as u8)), if alt { 9002 } else { 9001 })
}
fn member_of(id: usize, m: &AbsMember) -> ClusterMember {
    // data-centre name kept concrete on every path
    let mut dc = String::new();
    let mut d = 0;
    while d < 2 {
        if m.dc as usize == d {
            dc = DCS[d].to_string();
        }
        d += 1;
    }
    ClusterMember { node_id: id as NodeId, public_addr: addr_of(id, m.alt_addr), data_center: dc }
}
fn build(s: &AbsSnap) -> NodeMembership {
    let mut m = NodeMembership::new();
    let mut i = 0;
    while i < NID {
        if s[i].present {
            m.insert(i as NodeId, member_of(i, &s[i]));
        }
        i += 1;
    }
    m
}
/// (id, addr) of `s[i]` is in the "other nodes" set of snapshot t
fn pair_in(s: &AbsSnap, i: usize, t: &AbsSnap) -> bool {
    i != SELF_ID as usize && t[i].present && t[i].alt_addr == s[i].alt_addr
}
fn count_member(v: &Vec<ClusterMember>, m: &ClusterMember) -> usize {
    let mut c = 0;
    for x in v.iter() {
        // field-wise (String equality goes through memcmp; data-centre names are one byte)
        if x.node_id == m.node_id && x.public_addr == m.public_addr && x.data_center.as_bytes()[0] == m.data_center.as_bytes()[0] && x.data_center.len() == 1 {
            c += 1;
        }
    }
    c
}

fn check_delta(d: &MembershipChange, prev: &AbsSnap, cur: &AbsSnap) {
    let mut nj = 0;
    let mut nl = 0;
    let mut i = 1;
    while i < NID {
        let joined = cur[i].present && !pair_in(cur, i, prev);
        let left = prev[i].present && !pair_in(prev, i, cur);
        if joined {
            assert!(count_member(&d.joined, &member_of(i, &cur[i])) == 1, "a node that appeared (or changed address) is reported as joined, as it is now");
            nj += 1;
        }
        if left {
            assert!(count_member(&d.left, &member_of(i, &prev[i])) == 1, "a node that disappeared is reported as having left, with the address it had");
            nl += 1;
        }
        i += 1;
    }
    assert!(d.joined.len() == nj && d.left.len() == nl, "nothing else is reported");
}

fn delta_step(prev_bits: u8, prev_alt: u8, cur_bits: u8, cur_alt: u8) {
    let prev = snap(prev_bits, prev_alt);
    let cur = snap(cur_bits, cur_alt);
    let mut items = Vec::new();
    items.push(build(&prev));
    items.push(build(&cur));
    let network = RpcNetwork::new();
    let selector = NodeSelectorHandle::new();
    let stats = ClusterStatistics::new();
    let tx = watch::Sender::<MembershipChange>::new();
    watch_membership_changes(SELF_ID, network.clone(), selector.clone(), stats.clone(), WatchStream::from_items(items), tx.clone());
    let log = tx.log();
    assert!(log.len() == 2, "one change event per snapshot");
    let empty = [AbsMember { present: false, alt_addr: false, dc: 0 }; NID];
    check_delta(&log[0], &empty, &prev);
    check_delta(&log[1], &prev, &cur);

    // consumer fold (distributor.rs / poller.rs: remove `left`, then insert `joined`) == others(cur)
    let mut live: [Option<SocketAddr>; NID] = [None; NID];
    for d in log.iter() {
        for m in d.left.iter() {
            live[m.node_id as usize] = None;
        }
        for m in d.joined.iter() {
            live[m.node_id as usize] = Some(m.public_addr);
        }
    }
    let mut i = 1;
    while i < NID {
        let want = if cur[i].present { Some(addr_of(i, cur[i].alt_addr)) } else { None };
        assert!(live[i] == want, "events add up to the live membership");
        i += 1;
    }

    // every departed address is disconnected (second transition)
    let mut i = 1;
    let mut want_disc = 0;
    while i < NID {
        if prev[i].present && !pair_in(&prev, i, &cur) {
            assert!(network.log().contains(&addr_of(i, prev[i].alt_addr)));
            want_disc += 1;
        }
        i += 1;
    }
    assert!(network.log().len() == want_disc, "only departed addresses are disconnected");

    // set_nodes receives exactly the data-centre layout of cur (second call)
    let layouts = selector.log();
    assert!(layouts.len() == 2);
    let lay = &layouts[1];
    let mut d = 0;
    let mut ndc = 0;
    while d < 2 {
        let mut want = 0;
        let mut i = 0;
        while i < NID {
            if cur[i].present && cur[i].dc as usize == d {
                want += 1;
                let got = lay.get(DCS[d]).map(|ns| ns.contains(&addr_of(i, cur[i].alt_addr)));
                assert!(got == Some(true), "every current member is in its data centre's node list");
            }
            i += 1;
        }
        let got_len = lay.get(DCS[d]).map(|ns| ns.len()).unwrap_or(0);
        assert!(got_len == want, "and nobody else");
        if want > 0 {
            ndc += 1;
        }
        d += 1;
    }
    assert!(lay.len() == ndc, "no stale data centre in the layout");
    if prev[1].present && cur[1].present {
        kani::cover!(prev[1].alt_addr != cur[1].alt_addr, "address change");
    }
    kani::cover!(true, "transition checked");
}
macro_rules! delta_harness {
    ($name:ident, $pp:expr, $pa:expr, $cp:expr, $ca:expr) => {
        #[kani::proof]
        #[kani::unwind(24)]
        fn $name() {
            delta_step($pp, $pa, $cp, $ca);
        }
    };
}
// name = mb_delta_<state of node 1><state of node 2>_<...>: 0 absent, 1 present at address A, 2 present at address B;
// all 81 transitions of two other nodes; data centres of all three nodes symbolic
delta_harness!(mb_delta_00_00, 0, 0, 0, 0);
delta_harness!(mb_delta_00_01, 0, 0, 4, 0);
delta_harness!(mb_delta_00_02, 0, 0, 4, 4);
delta_harness!(mb_delta_00_10, 0, 0, 2, 0);
delta_harness!(mb_delta_00_11, 0, 0, 6, 0);
delta_harness!(mb_delta_00_12, 0, 0, 6, 4);
delta_harness!(mb_delta_00_20, 0, 0, 2, 2);
delta_harness!(mb_delta_00_21, 0, 0, 6, 2);
delta_harness!(mb_delta_00_22, 0, 0, 6, 6);
delta_harness!(mb_delta_01_00, 4, 0, 0, 0);
delta_harness!(mb_delta_01_01, 4, 0, 4, 0);
delta_harness!(mb_delta_01_02, 4, 0, 4, 4);
delta_harness!(mb_delta_01_10, 4, 0, 2, 0);
delta_harness!(mb_delta_01_11, 4, 0, 6, 0);
delta_harness!(mb_delta_01_12, 4, 0, 6, 4);
delta_harness!(mb_delta_01_20, 4, 0, 2, 2);
delta_harness!(mb_delta_01_21, 4, 0, 6, 2);
delta_harness!(mb_delta_01_22, 4, 0, 6, 6);
delta_harness!(mb_delta_02_00, 4, 4, 0, 0);
delta_harness!(mb_delta_02_01, 4, 4, 4, 0);
delta_harness!(mb_delta_02_02, 4, 4, 4, 4);
delta_harness!(mb_delta_02_10, 4, 4, 2, 0);
delta_harness!(mb_delta_02_11, 4, 4, 6, 0);
delta_harness!(mb_delta_02_12, 4, 4, 6, 4);
delta_harness!(mb_delta_02_20, 4, 4, 2, 2);
delta_harness!(mb_delta_02_21, 4, 4, 6, 2);
delta_harness!(mb_delta_02_22, 4, 4, 6, 6);
delta_harness!(mb_delta_10_00, 2, 0, 0, 0);
delta_harness!(mb_delta_10_01, 2, 0, 4, 0);
delta_harness!(mb_delta_10_02, 2, 0, 4, 4);
delta_harness!(mb_delta_10_10, 2, 0, 2, 0);
delta_harness!(mb_delta_10_11, 2, 0, 6, 0);
delta_harness!(mb_delta_10_12, 2, 0, 6, 4);
delta_harness!(mb_delta_10_20, 2, 0, 2, 2);
delta_harness!(mb_delta_10_21, 2, 0, 6, 2);
delta_harness!(mb_delta_10_22, 2, 0, 6, 6);
delta_harness!(mb_delta_11_00, 6, 0, 0, 0);
delta_harness!(mb_delta_11_01, 6, 0, 4, 0);
delta_harness!(mb_delta_11_02, 6, 0, 4, 4);
delta_harness!(mb_delta_11_10, 6, 0, 2, 0);
delta_harness!(mb_delta_11_11, 6, 0, 6, 0);
delta_harness!(mb_delta_11_12, 6, 0, 6, 4);
delta_harness!(mb_delta_11_20, 6, 0, 2, 2);
delta_harness!(mb_delta_11_21, 6, 0, 6, 2);
delta_harness!(mb_delta_11_22, 6, 0, 6, 6);
delta_harness!(mb_delta_12_00, 6, 4, 0, 0);
delta_harness!(mb_delta_12_01, 6, 4, 4, 0);
delta_harness!(mb_delta_12_02, 6, 4, 4, 4);
delta_harness!(mb_delta_12_10, 6, 4, 2, 0);
delta_harness!(mb_delta_12_11, 6, 4, 6, 0);
delta_harness!(mb_delta_12_12, 6, 4, 6, 4);
delta_harness!(mb_delta_12_20, 6, 4, 2, 2);
delta_harness!(mb_delta_12_21, 6, 4, 6, 2);
delta_harness!(mb_delta_12_22, 6, 4, 6, 6);
delta_harness!(mb_delta_20_00, 2, 2, 0, 0);
delta_harness!(mb_delta_20_01, 2, 2, 4, 0);
delta_harness!(mb_delta_20_02, 2, 2, 4, 4);
delta_harness!(mb_delta_20_10, 2, 2, 2, 0);
delta_harness!(mb_delta_20_11, 2, 2, 6, 0);
delta_harness!(mb_delta_20_12, 2, 2, 6, 4);
delta_harness!(mb_delta_20_20, 2, 2, 2, 2);
delta_harness!(mb_delta_20_21, 2, 2, 6, 2);
delta_harness!(mb_delta_20_22, 2, 2, 6, 6);
delta_harness!(mb_delta_21_00, 6, 2, 0, 0);
delta_harness!(mb_delta_21_01, 6, 2, 4, 0);
delta_harness!(mb_delta_21_02, 6, 2, 4, 4);
delta_harness!(mb_delta_21_10, 6, 2, 2, 0);
delta_harness!(mb_delta_21_11, 6, 2, 6, 0);
delta_harness!(mb_delta_21_12, 6, 2, 6, 4);
delta_harness!(mb_delta_21_20, 6, 2, 2, 2);
delta_harness!(mb_delta_21_21, 6, 2, 6, 2);
delta_harness!(mb_delta_21_22, 6, 2, 6, 6);
delta_harness!(mb_delta_22_00, 6, 6, 0, 0);
delta_harness!(mb_delta_22_01, 6, 6, 4, 0);
delta_harness!(mb_delta_22_02, 6, 6, 4, 4);
delta_harness!(mb_delta_22_10, 6, 6, 2, 0);
delta_harness!(mb_delta_22_11, 6, 6, 6, 0);
delta_harness!(mb_delta_22_12, 6, 6, 6, 4);
delta_harness!(mb_delta_22_20, 6, 6, 2, 2);
delta_harness!(mb_delta_22_21, 6, 6, 6, 2);
delta_harness!(mb_delta_22_22, 6, 6, 6, 6);


// native replay of Kani counterexamples (tools/replay.py writes the file)
#[cfg(verif_replay)]
include!("/verif/build/membership/replay_tests.rs");
