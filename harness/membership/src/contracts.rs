//! C16 contract of watch_membership_changes, class B: two consecutive snapshots over the id
//! universe {0 = self, 1, 2}; the first is ARBITRARY within the bound (so the second iteration is the step
//! prev -> cur from an arbitrary previous state). WHO is present and at WHICH address is concrete per harness
//! (`mb_step_<p1><p2>_<c1><c2>`: per snapshot and node '0' = absent, '1'..'3' = present at that address of a shared pool; members
//! of one snapshot have distinct addresses; the previous snapshot uses addresses canonically (first node present gets 1, the second 2),
//! the current one every assignment over three addresses: 4 x 13 = 52 transitions, so address changes, swaps and an address taken
//! over by ANOTHER node id are all covered). The data centre of every member (2 names) is symbolic. Symbolic map KEYS are what makes
//! CBMC expensive here (a transition with symbolic addresses: 300-730 s; concrete: 30-60 s), hence the split.
//!   joined(prev,cur) = members of cur (other than self) whose (id, addr) is not in prev, as in cur
//!   left(prev,cur)   = members of prev (other than self) whose (id, addr) is not in cur, AS IN PREV
//!   set_nodes gets exactly the data-centre layout of cur; every departed address that nobody uses any more is
//!   disconnected and nothing but departed addresses is; a consumer that removes `left` then inserts `joined` holds exactly others(cur).
use super::*;

const NID: usize = 3;
const SELF_ID: NodeId = 0;
/// identities of the data-centre names "a" and "b"
const DCS: [DcName; 2] = [DcName(0x6100_0000_0000_0001), DcName(0x6200_0000_0000_0001)];

#[derive(Clone, Copy)]
struct AbsMember {
    present: bool,
    /// index into the shared address pool
    addr: u8,
    dc: u8,
}
type AbsSnap = [AbsMember; NID];
const ABSENT: AbsMember = AbsMember { present: false, addr: 0, dc: 0 };

/// a snapshot with the given (concrete) addresses of nodes 1 and 2 (0 = absent); self is always a member at address 0; data centres arbitrary
fn snap(a1: u8, a2: u8) -> AbsSnap {
    let addrs = [Some(0u8), if a1 == 0 { None } else { Some(a1) }, if a2 == 0 { None } else { Some(a2) }];
    let mut s = [ABSENT; NID];
    let mut i = 0;
    while i < NID {
        if let Some(a) = addrs[i] {
            s[i] = AbsMember { present: true, addr: a, dc: kani::any() };
            kani::assume(s[i].dc < 2);
        }
        i += 1;
    }
    s
}
fn addr_of(a: u8) -> SocketAddr {
    vcoll::vkey::OpaqueId(((10u64 << 24) << 16) | (9001 + a as u64))
}
fn member_of(id: usize, m: &AbsMember) -> ClusterMember {
    let dc = if m.dc == 0 { DCS[0] } else { DCS[1] };
    ClusterMember { node_id: id as NodeId, public_addr: addr_of(m.addr), data_center: dc }
}
fn build(s: &AbsSnap) -> NodeMembership {
    let mut m = NodeMembership::new();
    let mut i = 0;
    while i < NID {
        if s[i].present {
            m.insert(i as NodeId, member_of(i, &s[i]));
        }
        i += 1;
    }
    m
}
/// (id, addr) of `s[i]` is in the "other nodes" set of snapshot t
fn pair_in(s: &AbsSnap, i: usize, t: &AbsSnap) -> bool {
    i != SELF_ID as usize && t[i].present && t[i].addr == s[i].addr
}
fn addr_used(a: u8, t: &AbsSnap) -> bool {
    (t[0].present && t[0].addr == a) || (t[1].present && t[1].addr == a) || (t[2].present && t[2].addr == a)
}
fn count_member(v: &Vec<ClusterMember>, m: &ClusterMember) -> usize {
    let mut c = 0;
    for x in v.iter() {
        if x == m {
            c += 1;
        }
    }
    c
}

fn check_delta(d: &MembershipChange, prev: &AbsSnap, cur: &AbsSnap) {
    let mut nj = 0;
    let mut nl = 0;
    let mut i = 1;
    while i < NID {
        let joined = cur[i].present && !pair_in(cur, i, prev);
        let left = prev[i].present && !pair_in(prev, i, cur);
        if joined {
            assert!(count_member(&d.joined, &member_of(i, &cur[i])) == 1, "a node that appeared (or changed address) is reported as joined, as it is now");
            nj += 1;
        }
        if left {
            assert!(count_member(&d.left, &member_of(i, &prev[i])) == 1, "a node that disappeared is reported as having left, with the address it had");
            nl += 1;
        }
        i += 1;
    }
    assert!(d.joined.len() == nj && d.left.len() == nl, "nothing else is reported");
}

fn delta_step(p1: u8, p2: u8, c1: u8, c2: u8) {
    let prev = snap(p1, p2);
    let cur = snap(c1, c2);
    delta_case(prev, cur);
}
fn delta_case(prev: AbsSnap, cur: AbsSnap) {
    let mut items = Vec::new();
    items.push(build(&prev));
    items.push(build(&cur));
    let (net_log, lay_log, stat_cell, chan) = (DisconnectLog::new(Vec::new()), LayoutLog::new(), ClusterStatisticsInner::new(), watch::SenderInner::<MembershipChange>::new());
    let network = RpcNetwork::on(&net_log);
    let selector = NodeSelectorHandle::on(&lay_log);
    let stats = ClusterStatistics::on(&stat_cell);
    let tx = watch::Sender::on(&chan);
    watch_membership_changes(SELF_ID, network.clone(), selector.clone(), stats.clone(), WatchStream::from_items(items), tx.clone());
    let log = tx.log();
    // not part of C16: the harness reads the two events by position; an implementation that coalesces or skips events is outside what this harness models (undecided, not a violation)
    assert!(log.len() == 2, "vcoll: harness expects one change event per snapshot");
    let empty = [ABSENT; NID];
    check_delta(&log[0], &empty, &prev);
    check_delta(&log[1], &prev, &cur);

    // consumer fold (distributor.rs / poller.rs: remove `left`, then insert `joined`) == others(cur)
    let mut live: [Option<SocketAddr>; NID] = [None; NID];
    for d in log.iter() {
        for m in d.left.iter() {
            live[m.node_id as usize] = None;
        }
        for m in d.joined.iter() {
            live[m.node_id as usize] = Some(m.public_addr);
        }
    }
    let mut i = 1;
    while i < NID {
        let want = if cur[i].present { Some(addr_of(cur[i].addr)) } else { None };
        assert!(live[i] == want, "events add up to the live membership");
        i += 1;
    }

    // second transition: a departed address nobody uses any more is disconnected; nothing but departed addresses is
    let mut i = 1;
    while i < NID {
        if prev[i].present && !pair_in(&prev, i, &cur) && !addr_used(prev[i].addr, &cur) {
            assert!(network.log().contains(&addr_of(prev[i].addr)), "the connection to a departed address is dropped");
        }
        i += 1;
    }
    for a in network.log().iter() {
        let mut departed = false;
        let mut i = 1;
        while i < NID {
            if prev[i].present && !pair_in(&prev, i, &cur) && addr_of(prev[i].addr) == *a {
                departed = true;
            }
            i += 1;
        }
        assert!(departed, "only departed addresses are disconnected");
    }

    // set_nodes receives exactly the data-centre layout of cur (second call)
    assert!(selector.calls() >= 1, "the selector is told the layout");
    let lay = selector.last().unwrap();
    let mut d = 0;
    let mut ndc = 0;
    while d < 2 {
        let mut want = 0;
        let mut i = 0;
        while i < NID {
            if cur[i].present && cur[i].dc as usize == d {
                want += 1;
                let got = lay.get(&DCS[d]).map(|ns| ns.contains(&addr_of(cur[i].addr)));
                assert!(got == Some(true), "every current member is in its data centre's node list");
            }
            i += 1;
        }
        let got_len = lay.get(&DCS[d]).map(|ns| ns.len()).unwrap_or(0);
        assert!(got_len == want, "and nobody else");
        if want > 0 {
            ndc += 1;
        }
        d += 1;
    }
    assert!(lay.len() == ndc, "no stale data centre in the layout");
    // vacuity guards (per transition: a clause that does not apply to this transition is trivially covered)
    kani::cover!(true, "transition reachable");
    let both1 = prev[1].present && cur[1].present && prev[1].addr == cur[1].addr;
    kani::cover!(!both1 || prev[1].dc != cur[1].dc, "data centre change only");
    kani::cover!(!(cur[1].present && cur[2].present) || cur[1].dc != cur[2].dc, "two data centres in one layout");
}

macro_rules! step_harness {
    ($name:ident, $a:expr, $b:expr, $c:expr, $d:expr) => {
        #[kani::proof]
        #[kani::unwind(6)]
        fn $name() {
            delta_step($a, $b, $c, $d);
        }
    };
}
// mb_step_<p1><p2>_<c1><c2>: address of node 1 / node 2 in the previous and the current snapshot (0 = absent)
step_harness!(mb_step_00_00, 0, 0, 0, 0);
step_harness!(mb_step_00_01, 0, 0, 0, 1);
step_harness!(mb_step_00_02, 0, 0, 0, 2);
step_harness!(mb_step_00_03, 0, 0, 0, 3);
step_harness!(mb_step_00_10, 0, 0, 1, 0);
step_harness!(mb_step_00_12, 0, 0, 1, 2);
step_harness!(mb_step_00_13, 0, 0, 1, 3);
step_harness!(mb_step_00_20, 0, 0, 2, 0);
step_harness!(mb_step_00_21, 0, 0, 2, 1);
step_harness!(mb_step_00_23, 0, 0, 2, 3);
step_harness!(mb_step_00_30, 0, 0, 3, 0);
step_harness!(mb_step_00_31, 0, 0, 3, 1);
step_harness!(mb_step_00_32, 0, 0, 3, 2);
step_harness!(mb_step_10_00, 1, 0, 0, 0);
step_harness!(mb_step_10_01, 1, 0, 0, 1);
step_harness!(mb_step_10_02, 1, 0, 0, 2);
step_harness!(mb_step_10_03, 1, 0, 0, 3);
step_harness!(mb_step_10_10, 1, 0, 1, 0);
step_harness!(mb_step_10_12, 1, 0, 1, 2);
step_harness!(mb_step_10_13, 1, 0, 1, 3);
step_harness!(mb_step_10_20, 1, 0, 2, 0);
step_harness!(mb_step_10_21, 1, 0, 2, 1);
step_harness!(mb_step_10_23, 1, 0, 2, 3);
step_harness!(mb_step_10_30, 1, 0, 3, 0);
step_harness!(mb_step_10_31, 1, 0, 3, 1);
step_harness!(mb_step_10_32, 1, 0, 3, 2);
step_harness!(mb_step_01_00, 0, 1, 0, 0);
step_harness!(mb_step_01_01, 0, 1, 0, 1);
step_harness!(mb_step_01_02, 0, 1, 0, 2);
step_harness!(mb_step_01_03, 0, 1, 0, 3);
step_harness!(mb_step_01_10, 0, 1, 1, 0);
step_harness!(mb_step_01_12, 0, 1, 1, 2);
step_harness!(mb_step_01_13, 0, 1, 1, 3);
step_harness!(mb_step_01_20, 0, 1, 2, 0);
step_harness!(mb_step_01_21, 0, 1, 2, 1);
step_harness!(mb_step_01_23, 0, 1, 2, 3);
step_harness!(mb_step_01_30, 0, 1, 3, 0);
step_harness!(mb_step_01_31, 0, 1, 3, 1);
step_harness!(mb_step_01_32, 0, 1, 3, 2);
step_harness!(mb_step_12_00, 1, 2, 0, 0);
step_harness!(mb_step_12_01, 1, 2, 0, 1);
step_harness!(mb_step_12_02, 1, 2, 0, 2);
step_harness!(mb_step_12_03, 1, 2, 0, 3);
step_harness!(mb_step_12_10, 1, 2, 1, 0);
step_harness!(mb_step_12_12, 1, 2, 1, 2);
step_harness!(mb_step_12_13, 1, 2, 1, 3);
step_harness!(mb_step_12_20, 1, 2, 2, 0);
step_harness!(mb_step_12_21, 1, 2, 2, 1);
step_harness!(mb_step_12_23, 1, 2, 2, 3);
step_harness!(mb_step_12_30, 1, 2, 3, 0);
step_harness!(mb_step_12_31, 1, 2, 3, 1);
step_harness!(mb_step_12_32, 1, 2, 3, 2);

/// D6 (KNOWN FINDING, see known_findings.txt): the deltas travel on a LATEST-VALUE channel (tokio::sync::watch). Concrete history:
/// node 1 joins (first change), then a second snapshot with the same membership is processed before the subscriber reads.
/// A subscriber that reads only then is handed the latest delta alone (empty) and never learns about node 1, although the
/// property promises the live membership "no matter how slowly it reads". Demonstrated on the real tokio channel and the real
/// function in notes/D6_demo.diff. This obligation FAILS on the pinned tree by design and is reported as KNOWN-FINDING.
#[kani::proof]
#[kani::unwind(6)]
fn mb_slow_subscriber() {
    let m1 = AbsMember { present: true, addr: 1, dc: 0 };
    let me = AbsMember { present: true, addr: 0, dc: 0 };
    let snap: AbsSnap = [me, m1, ABSENT];
    let mut items = Vec::new();
    items.push(build(&snap));
    items.push(build(&snap));
    let (net_log, lay_log, stat_cell, chan) = (DisconnectLog::new(Vec::new()), LayoutLog::new(), ClusterStatisticsInner::new(), watch::SenderInner::<MembershipChange>::new());
    let network = RpcNetwork::on(&net_log);
    let selector = NodeSelectorHandle::on(&lay_log);
    let stats = ClusterStatistics::on(&stat_cell);
    let tx = watch::Sender::on(&chan);
    watch_membership_changes(SELF_ID, network.clone(), selector.clone(), stats.clone(), WatchStream::from_items(items), tx.clone());
    // what a receiver that reads now is handed: the latest value only
    let mut live: [Option<SocketAddr>; NID] = [None; NID];
    if let Some(d) = tx.latest() {
        for m in d.left.iter() {
            live[m.node_id as usize] = None;
        }
        for m in d.joined.iter() {
            live[m.node_id as usize] = Some(m.public_addr);
        }
    }
    assert!(live[1] == Some(addr_of(1)), "D6: a subscriber that reads after two membership changes were published holds the live membership");
}

// native replay of Kani counterexamples (tools/replay.py writes the file)
#[cfg(verif_replay)]
include!("/verif/build/membership/replay_tests.rs");
