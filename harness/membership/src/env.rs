//! Stand-ins for what watch_membership_changes uses: the snapshot stream, the delta channel
//! (a LATEST-VALUE channel like tokio::sync::watch: `send` overwrites; a ghost log keeps every value
//! sent), the RPC network, the node selector handle and the statistics counters.
use core::cell::{Cell, UnsafeCell};

/// Data-centre names are OPAQUE identifiers in this unit: `String` -> DcName (the 64-bit order-preserving identity vcoll uses for
/// strings of <= 7 bytes) and `Cow<'static, str>` -> DcCow. Measured reason (same as the restart unit): heap `String`s (allocation,
/// memcpy, memcmp, clone) make CBMC's propositional reduction run out of memory; watch_membership_changes only clones, wraps
/// (Cow::Owned) and uses names as map keys.
#[derive(Clone, Copy, PartialEq, Eq, PartialOrd, Ord, Debug)]
pub struct DcName(pub u64);
#[derive(Debug)]
pub enum DcCow<'a, B: ?Sized + 'a> {
    Borrowed(&'a B),
    Owned(DcName),
}
pub use DcCow as Cow;
impl<'a, B: ?Sized> Clone for DcCow<'a, B> {
    fn clone(&self) -> Self {
        match self {
            DcCow::Borrowed(b) => DcCow::Borrowed(*b),
            DcCow::Owned(n) => DcCow::Owned(*n),
        }
    }
}
impl<'a> vcoll::VKey for DcCow<'a, str> {
    fn vkey(&self) -> u64 {
        match self {
            DcCow::Borrowed(b) => vcoll::VKey::vkey(*b),
            DcCow::Owned(n) => n.0,
        }
    }
}
impl vcoll::VKey for DcName {
    fn vkey(&self) -> u64 {
        self.0
    }
}
impl<'a> core::borrow::Borrow<DcName> for DcCow<'a, str> {
    fn borrow(&self) -> &DcName {
        match self {
            DcCow::Owned(n) => n,
            DcCow::Borrowed(_) => panic!("vcoll: borrowed data-centre names are not used in this unit"),
        }
    }
}
/// socket addresses are OPAQUE identifiers in this unit (copied, compared, used as set keys, handed to disconnect)
pub type SocketAddr = vcoll::vkey::OpaqueId;
pub use std::sync::atomic::Ordering;

use vcoll::vvec::VVec;
use vcoll::BTreeMap;

pub type Nodes = VVec<SocketAddr>;

pub struct WatchStream<T> {
    items: UnsafeCell<VVec<T>>,
    pos: Cell<usize>,
}
impl<T: Clone> WatchStream<T> {
    pub fn from_items(items: VVec<T>) -> Self {
        WatchStream { items: UnsafeCell::new(items), pos: Cell::new(0) }
    }
    pub fn next(&mut self) -> Option<T> {
        let items = unsafe { &*self.items.get() };
        let p = self.pos.get();
        self.pos.set(p + 1);
        items.get(p).cloned()
    }
}

pub mod watch {
    use super::*;
    pub struct SenderInner<T> {
        /// what a receiver that reads now would see
        pub latest: UnsafeCell<Option<T>>,
        /// ghost: every value ever sent, in order
        pub log: UnsafeCell<VVec<T>>,
    }
    /// handle (the harness keeps a clone to inspect the ghost log after the call)
    pub struct Sender<T> {
        inner: vcoll::sync::Arc<SenderInner<T>>,
    }
    impl<T> Clone for Sender<T> {
        fn clone(&self) -> Self {
            Sender { inner: self.inner.clone() }
        }
    }
    impl<T: Clone> Sender<T> {
        pub fn new() -> Self {
            Sender { inner: vcoll::sync::Arc::new(SenderInner { latest: UnsafeCell::new(None), log: UnsafeCell::new(VVec::new()) }) }
        }
        pub fn send(&self, v: T) -> Result<(), ()> {
            unsafe {
                (*self.inner.log.get()).push(v.clone());
                *self.inner.latest.get() = Some(v);
            }
            Ok(())
        }
        pub fn log(&self) -> &VVec<T> {
            unsafe { &*self.inner.log.get() }
        }
        pub fn latest(&self) -> Option<&T> {
            unsafe { (*self.inner.latest.get()).as_ref() }
        }
    }
}

#[derive(Clone)]
pub struct RpcNetwork {
    disconnected: vcoll::sync::Arc<UnsafeCell<VVec<SocketAddr>>>,
}
impl RpcNetwork {
    pub fn new() -> Self {
        RpcNetwork { disconnected: vcoll::sync::Arc::new(UnsafeCell::new(VVec::new())) }
    }
    pub fn disconnect(&self, addr: SocketAddr) {
        unsafe { (*self.disconnected.get()).push(addr) }
    }
    pub fn log(&self) -> &VVec<SocketAddr> {
        unsafe { &*self.disconnected.get() }
    }
}

#[derive(Clone)]
pub struct NodeSelectorHandle {
    layouts: vcoll::sync::Arc<UnsafeCell<VVec<BTreeMap<Cow<'static, str>, Nodes>>>>,
}
impl NodeSelectorHandle {
    pub fn new() -> Self {
        NodeSelectorHandle { layouts: vcoll::sync::Arc::new(UnsafeCell::new(VVec::new())) }
    }
    pub fn set_nodes(&self, nodes: BTreeMap<Cow<'static, str>, Nodes>) {
        unsafe { (*self.layouts.get()).push(nodes) }
    }
    pub fn log(&self) -> &VVec<BTreeMap<Cow<'static, str>, Nodes>> {
        unsafe { &*self.layouts.get() }
    }
}

pub struct Counter(pub Cell<u64>);
impl Counter {
    pub fn store(&self, v: u64, _o: Ordering) {
        self.0.set(v)
    }
}
#[derive(Clone)]
pub struct ClusterStatistics {
    inner: vcoll::sync::Arc<ClusterStatisticsInner>,
}
pub struct ClusterStatisticsInner {
    pub num_data_centers: Counter,
}
impl ClusterStatistics {
    pub fn new() -> Self {
        ClusterStatistics { inner: vcoll::sync::Arc::new(ClusterStatisticsInner { num_data_centers: Counter(Cell::new(0)) }) }
    }
}
impl core::ops::Deref for ClusterStatistics {
    type Target = ClusterStatisticsInner;
    fn deref(&self) -> &ClusterStatisticsInner {
        &self.inner
    }
}
