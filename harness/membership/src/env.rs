//! Stand-ins for what watch_membership_changes uses: the snapshot stream, the delta channel
//! (a LATEST-VALUE channel like tokio::sync::watch: `send` overwrites; a ghost log keeps every value
//! sent), the RPC network, the node selector handle and the statistics counters.
use core::cell::{Cell, UnsafeCell};

/// Data-centre names are OPAQUE identifiers in this unit: `String` -> DcName (the 64-bit order-preserving identity vcoll uses for
/// strings of <= 7 bytes) and `Cow<'static, str>` -> DcCow. Measured reason (same as the restart unit): heap `String`s (allocation,
/// memcpy, memcmp, clone) make CBMC's propositional reduction run out of memory; watch_membership_changes only clones, wraps
/// (Cow::Owned) and uses names as map keys.
#[derive(Clone, Copy, PartialEq, Eq, PartialOrd, Ord, Debug)]
pub struct DcName(pub u64);
#[derive(Debug)]
pub enum DcCow<'a, B: ?Sized + 'a> {
    Borrowed(&'a B),
    Owned(DcName),
}
pub use DcCow as Cow;
impl<'a, B: ?Sized> Clone for DcCow<'a, B> {
    fn clone(&self) -> Self {
        match self {
            DcCow::Borrowed(b) => DcCow::Borrowed(*b),
            DcCow::Owned(n) => DcCow::Owned(*n),
        }
    }
}
impl<'a> vcoll::VKey for DcCow<'a, str> {
    fn vkey(&self) -> u64 {
        match self {
            DcCow::Borrowed(b) => vcoll::VKey::vkey(*b),
            DcCow::Owned(n) => n.0,
        }
    }
}
impl vcoll::VKey for DcName {
    fn vkey(&self) -> u64 {
        self.0
    }
}
impl<'a> core::borrow::Borrow<DcName> for DcCow<'a, str> {
    fn borrow(&self) -> &DcName {
        match self {
            DcCow::Owned(n) => n,
            DcCow::Borrowed(_) => panic!("vcoll: borrowed data-centre names are not used in this unit"),
        }
    }
}
/// socket addresses are OPAQUE identifiers in this unit (copied, compared, used as set keys, handed to disconnect)
pub type SocketAddr = vcoll::vkey::OpaqueId;
pub use std::sync::atomic::Ordering;

use vcoll::vvec::VVec;
use vcoll::BTreeMap;

pub type Nodes = VVec<SocketAddr>;

pub struct WatchStream<T> {
    items: UnsafeCell<VVec<T>>,
    pos: Cell<usize>,
}
impl<T> WatchStream<T> {
    pub fn from_items(items: VVec<T>) -> Self {
        WatchStream { items: UnsafeCell::new(items), pos: Cell::new(0) }
    }
    /// the next snapshot (moved out, not cloned)
    pub fn next(&mut self) -> Option<T> {
        let items = unsafe { &mut *self.items.get() };
        let p = self.pos.get();
        self.pos.set(p + 1);
        items.take_at(p)
    }
}

pub mod watch {
    use super::*;
    /// the channel state lives in a harness LOCAL (a typed stack object): a heap object is an untyped byte array for CBMC and
    /// nothing stored in it is constant-propagated (measured: 15 M -> 7 M SAT variables from un-boxing the maps alone)
    pub struct SenderInner<T> {
        /// what a receiver that reads now would see
        pub latest: UnsafeCell<Option<T>>,
        /// ghost: every value ever sent, in order
        pub log: UnsafeCell<VVec<T>>,
    }
    impl<T> SenderInner<T> {
        pub fn new() -> Self {
            SenderInner { latest: UnsafeCell::new(None), log: UnsafeCell::new(VVec::new()) }
        }
    }
    /// handle (the harness keeps the state itself and inspects the ghost log after the call)
    pub struct Sender<T> {
        inner: *const SenderInner<T>,
    }
    impl<T> Clone for Sender<T> {
        fn clone(&self) -> Self {
            Sender { inner: self.inner }
        }
    }
    impl<T: Clone> Sender<T> {
        pub fn on(inner: &SenderInner<T>) -> Self {
            Sender { inner: inner as *const SenderInner<T> }
        }
        pub fn send(&self, v: T) -> Result<(), ()> {
            unsafe {
                (*(*self.inner).log.get()).push(v.clone());
                *(*self.inner).latest.get() = Some(v);
            }
            Ok(())
        }
        pub fn log(&self) -> &VVec<T> {
            unsafe { &*(*self.inner).log.get() }
        }
        pub fn latest(&self) -> Option<&T> {
            unsafe { (*(*self.inner).latest.get()).as_ref() }
        }
    }
}

pub type DisconnectLog = UnsafeCell<VVec<SocketAddr>>;
#[derive(Clone)]
pub struct RpcNetwork {
    disconnected: *const DisconnectLog,
}
impl RpcNetwork {
    pub fn on(log: &DisconnectLog) -> Self {
        RpcNetwork { disconnected: log as *const DisconnectLog }
    }
    pub fn disconnect(&self, addr: SocketAddr) {
        unsafe { (*(*self.disconnected).get()).push(addr) }
    }
    pub fn log(&self) -> &VVec<SocketAddr> {
        unsafe { &*(*self.disconnected).get() }
    }
}

pub type Layout = BTreeMap<Cow<'static, str>, Nodes>;
/// what the selector was told: the number of set_nodes calls and the LAST layout
pub struct LayoutLog {
    pub calls: Cell<usize>,
    pub last: UnsafeCell<Option<Layout>>,
}
impl LayoutLog {
    pub fn new() -> Self {
        LayoutLog { calls: Cell::new(0), last: UnsafeCell::new(None) }
    }
}
#[derive(Clone)]
pub struct NodeSelectorHandle {
    layouts: *const LayoutLog,
}
impl NodeSelectorHandle {
    pub fn on(log: &LayoutLog) -> Self {
        NodeSelectorHandle { layouts: log as *const LayoutLog }
    }
    pub fn set_nodes(&self, nodes: Layout) {
        unsafe {
            (*self.layouts).calls.set((*self.layouts).calls.get() + 1);
            *(*self.layouts).last.get() = Some(nodes);
        }
    }
    pub fn calls(&self) -> usize {
        unsafe { (*self.layouts).calls.get() }
    }
    pub fn last(&self) -> Option<&Layout> {
        unsafe { (*(*self.layouts).last.get()).as_ref() }
    }
}

pub struct Counter(pub Cell<u64>);
impl Counter {
    pub fn store(&self, v: u64, _o: Ordering) {
        self.0.set(v)
    }
}
#[derive(Clone)]
pub struct ClusterStatistics {
    inner: *const ClusterStatisticsInner,
}
pub struct ClusterStatisticsInner {
    pub num_data_centers: Counter,
}
impl ClusterStatisticsInner {
    pub fn new() -> Self {
        ClusterStatisticsInner { num_data_centers: Counter(Cell::new(0)) }
    }
}
impl ClusterStatistics {
    pub fn on(inner: &ClusterStatisticsInner) -> Self {
        ClusterStatistics { inner: inner as *const ClusterStatisticsInner }
    }
}
impl core::ops::Deref for ClusterStatistics {
    type Target = ClusterStatisticsInner;
    fn deref(&self) -> &ClusterStatisticsInner {
        unsafe { &*self.inner }
    }
}
