//! Unit `membership` (C16): contract on watch_membership_changes sliced verbatim from
//! /repo/datacake-node/src/lib.rs (async/await de-sugared), with ClusterMember / NodeMembership from node.rs.
#![allow(dead_code, unused_imports)]

pub type NodeId = u8;
pub mod env;

#[path = "/verif/build/membership/gen/node_types.rs"]
pub mod node_types;

#[path = "/verif/build/membership/gen/watch.rs"]
pub mod watch;
