// ---- prelude for node.rs slices ---------------------------------------------------------------
use crate::env::SocketAddr;
use vcoll::BTreeMap;
// `String` (ClusterMember::data_center) is the opaque data-centre name of this unit
#[allow(non_camel_case_types)]
type String = crate::env::DcName;
impl vcoll::Havoc for ClusterMember {
    fn havoc() -> Self {
        panic!("vcoll: membership snapshots are concrete")
    }
}
// ---- end of prelude ---------------------------------------------------------------------------
