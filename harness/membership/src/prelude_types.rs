// ---- prelude for node.rs slices ---------------------------------------------------------------
use std::net::SocketAddr;
use vcoll::BTreeMap;
impl vcoll::Havoc for ClusterMember {
    fn havoc() -> Self {
        panic!("vcoll: membership snapshots are concrete")
    }
}
// ---- end of prelude ---------------------------------------------------------------------------
