// ---- prelude for node.rs slices ---------------------------------------------------------------
use std::net::SocketAddr;
use std::collections::BTreeMap;
// ---- end of prelude ---------------------------------------------------------------------------
