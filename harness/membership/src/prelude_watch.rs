// ---- prelude for lib.rs slices ----------------------------------------------------------------
// data-centre names are opaque identifiers in this unit (env.rs: DcName / DcCow)
use crate::env::SocketAddr;

use vcoll::vvec::VVec as Vec;
use vcoll::{BTreeMap, BTreeSet};

use crate::env::*;
use crate::node_types::{ClusterMember, NodeMembership};
use crate::NodeId;

#[allow(unused_macros)]
macro_rules! info {
    ($($t:tt)*) => {};
}
// ---- end of prelude ---------------------------------------------------------------------------
