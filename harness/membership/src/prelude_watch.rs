// ---- prelude for lib.rs slices ----------------------------------------------------------------
use std::borrow::Cow;
use std::net::SocketAddr;

use std::collections::{BTreeMap, BTreeSet};

use crate::env::*;
use crate::node_types::{ClusterMember, NodeMembership};
use crate::NodeId;

#[allow(unused_macros)]
macro_rules! info {
    ($($t:tt)*) => {};
}
// ---- end of prelude ---------------------------------------------------------------------------
