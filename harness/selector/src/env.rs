//! Stand-ins for what nodes_selector.rs imports (trusted, listed in evidence).
use vcoll::vvec::VVec;

/// socket addresses are OPAQUE identifiers in this unit (copied, compared, collected)
pub type SocketAddr = vcoll::vkey::OpaqueId;

/// `SmallVec<[T; N]>` -> fixed-capacity vcoll::VVec<T> (the inline capacity N is a performance detail)
pub trait SvArray {
    type Item;
}
impl<T, const N: usize> SvArray for [T; N] {
    type Item = T;
}
pub type SmallVec<A> = VVec<<A as SvArray>::Item>;

/// `rand`: `thread_rng()` + `IteratorRandom::choose_multiple` return an ARBITRARY sub-selection of the requested size
/// (every element is kept or dropped nondeterministically subject to the size), in iteration order or reversed --
/// so every outcome of the random choice the contract can depend on (which elements) is covered.
pub mod rand {
    pub struct ThreadRng;
    pub fn thread_rng() -> ThreadRng {
        ThreadRng
    }
    pub mod seq {
        use vcoll::vvec::VVec;
        pub trait IteratorRandom: Iterator + Sized {
            fn choose_multiple<R>(self, _rng: &mut R, amount: usize) -> VVec<Self::Item> {
                let mut all: VVec<Self::Item> = VVec::new();
                for x in self {
                    all.push(x);
                }
                let total = all.len();
                let want = if amount < total { amount } else { total };
                let mut out: VVec<Self::Item> = VVec::new();
                let mut seen = 0;
                for x in all {
                    // keep x iff chosen; forced so that exactly `want` are kept
                    let remaining = total - seen;
                    let need = want - out.len();
                    let keep = if need == 0 {
                        false
                    } else if need == remaining {
                        true
                    } else {
                        vcoll::havoc::any_bool()
                    };
                    if keep {
                        out.push(x);
                    }
                    seen += 1;
                }
                out
            }
        }
        impl<I: Iterator + Sized> IteratorRandom for I {}
    }
}

/// `Cow<'static, str>` stand-in WITHOUT the owned variant: data-centre names are `&'static str` constants in this unit, and the
/// std `Cow`'s `Owned(String)` arm (never taken) dragged `RawVec` pointer reasoning into every `as_ref()` / `==` on a name.
pub enum SCow<'a, B: ?Sized + 'a> {
    Borrowed(&'a B),
}
impl<'a, B: ?Sized> Clone for SCow<'a, B> {
    fn clone(&self) -> Self {
        match self {
            SCow::Borrowed(b) => SCow::Borrowed(*b),
        }
    }
}
impl<'a, B: ?Sized> AsRef<B> for SCow<'a, B> {
    fn as_ref(&self) -> &B {
        match self {
            SCow::Borrowed(b) => b,
        }
    }
}
impl<'a, B: ?Sized> core::ops::Deref for SCow<'a, B> {
    type Target = B;
    fn deref(&self) -> &B {
        self.as_ref()
    }
}
impl<'a, B: ?Sized> core::borrow::Borrow<B> for SCow<'a, B> {
    fn borrow(&self) -> &B {
        self.as_ref()
    }
}
impl<'a> PartialEq<str> for SCow<'a, str> {
    fn eq(&self, o: &str) -> bool {
        self.as_ref() == o
    }
}
impl<'a, 'b> PartialEq<&'b str> for SCow<'a, str> {
    fn eq(&self, o: &&'b str) -> bool {
        self.as_ref() == *o
    }
}
impl<'a> PartialEq for SCow<'a, str> {
    fn eq(&self, o: &Self) -> bool {
        self.as_ref() == o.as_ref()
    }
}
impl<'a> PartialOrd for SCow<'a, str> {
    fn partial_cmp(&self, o: &Self) -> Option<core::cmp::Ordering> {
        vcoll::VKey::vkey(self.as_ref()).partial_cmp(&vcoll::VKey::vkey(o.as_ref()))
    }
}
impl<'a> vcoll::VKey for SCow<'a, str> {
    fn vkey(&self) -> u64 {
        vcoll::VKey::vkey(self.as_ref())
    }
}
impl<'a, B: ?Sized> core::fmt::Debug for SCow<'a, B> {
    fn fmt(&self, _f: &mut core::fmt::Formatter<'_>) -> core::fmt::Result {
        Ok(())
    }
}

/// the selection cache of the actor loop (`HashMap<Consistency, (Instant, Nodes)>`): only `clear()` is used by the SetNodes arm
pub struct CacheStub {
    pub entries: usize,
}
impl CacheStub {
    pub fn clear(&mut self) {
        self.entries = 0;
    }
}
