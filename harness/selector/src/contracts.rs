//! C15 contracts (class B: bounded layouts) on the replica selection code sliced from nodes_selector.rs.
//! Layout: up to NDC data centres x up to NPD nodes each (sizes symbolic, every listed data centre non-empty), the local node is
//! any node of any data centre, and every data centre's round-robin CURSOR is an arbitrary usize -- cursors are the only state
//! a selection leaves behind, so an arbitrary cursor vector covers "whatever selections were made before".
//! Contract of a selection at level L:
//!   Ok(nodes)  => no duplicates; the local node is absent; every node is in the current layout;
//!                 |nodes| >= need(L) (== n for One/Two/Three; per data centre for EachQuorum)
//!   Err(NotEnoughNodes) => fewer than need(L) other nodes exist
use super::*;
use vcoll::vkey::OpaqueId;

pub const NDC: usize = 2;
pub const NPD: usize = 2;
const DC_NAMES: [&str; 3] = ["a", "b", "c"];

#[derive(Clone, Copy)]
struct Layout {
    sizes: [usize; NDC],
    cursors: [usize; NDC],
    local_dc: usize,
    local_idx: usize,
}
fn addr(dc: usize, i: usize) -> SocketAddr {
    OpaqueId(0x1000 | ((dc as u64) << 8) | i as u64)
}
/// `local_dc` is CONCRETE per harness (both positions in map order are covered by separate harnesses): a symbolic choice
/// between two `&'static str` made every `dc == local_dc` comparison a memcmp over a symbolic pointer.
fn any_layout(local_dc: usize) -> Layout {
    let mut l = Layout { sizes: [0; NDC], cursors: [0; NDC], local_dc, local_idx: kani::any() };
    let mut d = 0;
    while d < NDC {
        l.sizes[d] = kani::any();
        l.cursors[d] = kani::any();
        kani::assume(l.sizes[d] <= NPD);
        // the values NodeCycler::next can leave behind (anything >= len is reset to 0 on the next call)
        kani::assume(l.cursors[d] <= NPD);
        d += 1;
    }
    assert!(l.local_dc < NDC);
    // the local node is a member of its own data centre (membership snapshots always contain the node itself)
    let mut d = 0;
    while d < NDC {
        if d == l.local_dc {
            kani::assume(l.local_idx < l.sizes[d]);
        }
        d += 1;
    }
    l
}
fn size_of_dc(l: &Layout, dc: usize) -> usize {
    let mut d = 0;
    let mut r = 0;
    while d < NDC {
        if d == dc {
            r = l.sizes[d];
        }
        d += 1;
    }
    r
}
fn total(l: &Layout) -> usize {
    let mut t = 0;
    let mut d = 0;
    while d < NDC {
        t += l.sizes[d];
        d += 1;
    }
    t
}
fn build(l: &Layout) -> BTreeMap<Cow<'static, str>, NodeCycler> {
    let mut m = BTreeMap::new();
    let mut d = 0;
    while d < NDC {
        if l.sizes[d] > 0 {
            let mut nodes = Nodes::new();
            let mut i = 0;
            while i < NPD {
                if i < l.sizes[d] {
                    nodes.push(addr(d, i));
                }
                i += 1;
            }
            let mut c = NodeCycler::from(nodes);
            c.cursor = l.cursors[d];
            m.insert(Cow::Borrowed(DC_NAMES[d]), c);
        }
        d += 1;
    }
    m
}
fn local_name(l: &Layout) -> &'static str {
    DC_NAMES[l.local_dc]
}
/// number of selected nodes that are node (dc, i) of the layout
fn count(nodes: &Nodes, a: SocketAddr) -> usize {
    let mut c = 0;
    for x in nodes.iter() {
        if *x == a {
            c += 1;
        }
    }
    c
}
/// the structural part of the Ok-postcondition; returns per-DC counts
fn check_members(l: &Layout, nodes: &Nodes) -> [usize; NDC] {
    let local = addr(l.local_dc, l.local_idx);
    let mut per_dc = [0usize; NDC];
    let mut known = 0;
    let mut d = 0;
    while d < NDC {
        let mut i = 0;
        while i < NPD {
            let c = count(nodes, addr(d, i));
            if i < l.sizes[d] && addr(d, i) != local {
                assert!(c <= 1, "no node is selected twice");
            } else {
                assert!(c == 0, "only currently live members other than the local node are selected");
            }
            per_dc[d] += c;
            known += c;
            i += 1;
        }
        d += 1;
    }
    assert!(known == nodes.len(), "every selected node belongs to the current layout");
    per_dc
}

/// select_n_nodes(n) for n in 1..=3 (levels One / Two / Three)
#[kani::proof]
#[kani::unwind(6)]
fn sel_n_nodes_local_first() {
    sel_n_nodes(0);
}
#[kani::proof]
#[kani::unwind(6)]
fn sel_n_nodes_local_last() {
    sel_n_nodes(NDC - 1);
}
fn sel_n_nodes(local_dc: usize) {
    let l = any_layout(local_dc);
    let n: usize = kani::any();
    kani::assume(n >= 1 && n <= 3);
    let mut dcs = build(&l);
    let t = total(&l);
    let r = select_n_nodes(addr(l.local_dc, l.local_idx), local_name(&l), n, t, &mut dcs);
    match r {
        Ok(nodes) => {
            check_members(&l, &nodes);
            assert!(nodes.len() == n, "exactly n nodes for One / Two / Three");
            kani::cover!(n == 2, "two selected");
        },
        Err(ConsistencyError::NotEnoughNodes { .. }) => {
            assert!(t - 1 < n, "not-enough-nodes only when fewer than n other live nodes exist");
            kani::cover!(true, "too few nodes");
        },
        Err(_) => panic!("no other error is produced by selection"),
    }
}

#[kani::proof]
#[kani::unwind(6)]
fn sel_probe_a() {
    let mut l = any_layout(0);
    kani::assume(l.sizes[0] == 2 && l.sizes[1] == 2);
    let n: usize = kani::any();
    kani::assume(n >= 1 && n <= 3);
    let mut dcs = build(&l);
    let r = select_n_nodes(addr(l.local_dc, l.local_idx), local_name(&l), n, 4, &mut dcs);
    if let Ok(nodes) = r {
        assert!(nodes.len() == n);
    }
}
fn need_level(l: &Layout, level: Consistency) -> usize {
    let t = total(l);
    match level {
        Consistency::None => 0,
        Consistency::One => 1,
        Consistency::Two => 2,
        Consistency::Three => 3,
        Consistency::Quorum => t / 2,
        Consistency::LocalQuorum => size_of_dc(l, l.local_dc) / 2,
        Consistency::All => t - 1,
        Consistency::EachQuorum => 0, // checked per data centre below
    }
}
fn any_level(quorums_only: bool) -> Consistency {
    let k: u8 = kani::any();
    kani::assume(k < 8);
    if quorums_only {
        kani::assume(k == 0 || k >= 4);
    }
    match k {
        0 => Consistency::None,
        1 => Consistency::One,
        2 => Consistency::Two,
        3 => Consistency::Three,
        4 => Consistency::Quorum,
        5 => Consistency::LocalQuorum,
        6 => Consistency::All,
        _ => Consistency::EachQuorum,
    }
}
/// DCAwareSelector::select_nodes for None / Quorum / LocalQuorum / All / EachQuorum
#[kani::proof]
#[kani::unwind(6)]
fn sel_quorum_levels_local_first() {
    sel_quorum_levels(0);
}
#[kani::proof]
#[kani::unwind(6)]
fn sel_quorum_levels_local_last() {
    sel_quorum_levels(NDC - 1);
}
fn sel_quorum_levels(local_dc: usize) {
    let l = any_layout(local_dc);
    let level = any_level(true);
    let mut dcs = build(&l);
    let t = total(&l);
    let mut sel = DCAwareSelector::default();
    let r = sel.select_nodes(addr(l.local_dc, l.local_idx), local_name(&l), t, &mut dcs, level);
    match r {
        Ok(nodes) => {
            let per_dc = check_members(&l, &nodes);
            assert!(nodes.len() >= need_level(&l, level), "at least as many nodes as the level requires");
            if level == Consistency::All {
                assert!(nodes.len() == t - 1, "All = every other member");
            }
            if level == Consistency::None {
                assert!(nodes.len() == 0);
            }
            if level == Consistency::EachQuorum {
                let mut d = 0;
                while d < NDC {
                    // a majority of every data centre, the local node counting for its own
                    let want = if d == l.local_dc { l.sizes[d] / 2 } else if l.sizes[d] > 0 { l.sizes[d] / 2 + 1 } else { 0 };
                    assert!(per_dc[d] >= want, "a majority in each data centre");
                    d += 1;
                }
            }
            kani::cover!(level == Consistency::Quorum && nodes.len() == 1, "quorum of one");
            kani::cover!(level == Consistency::All && nodes.len() == 3, "all three others");
        },
        Err(ConsistencyError::NotEnoughNodes { .. }) => {
            assert!(t - 1 < need_level(&l, level), "not-enough-nodes only when fewer than the required number of other live nodes exist");
        },
        Err(_) => panic!("no other error is produced by selection"),
    }
}

// native replay of Kani counterexamples (tools/replay.py writes the file)
#[cfg(verif_replay)]
include!("/verif/build/selector/replay_tests.rs");
