//! C15 contracts (class B: bounded layouts) on the replica selection code sliced from nodes_selector.rs.
//! Layout: up to NDC data centres x up to NPD nodes each; the SHAPE (sizes, which node is the local one) is concrete per harness
//! (`sel_<sizes>_<dc><idx>`), the consistency level and every data centre's round-robin CURSOR are symbolic -- cursors are the only
//! state a selection leaves behind, so an arbitrary cursor vector covers "whatever selections were made before"; the random choice of
//! data centres is an arbitrary sub-selection. (Symbolic shapes: 13.6 M SAT variables, out of memory; concrete shape: 0.2 M.)
//! Contract of a selection at level L:
//!   Ok(nodes)  => no duplicates; the local node is absent; every node is in the current layout;
//!                 |nodes| >= need(L) (== n for One/Two/Three; per data centre for EachQuorum)
//!   Err(NotEnoughNodes) => fewer than need(L) other nodes exist
use super::*;
use vcoll::vkey::OpaqueId;

pub const NDC: usize = 3;
pub const NPD: usize = 3;
const DC_NAMES: [&str; 3] = ["a", "b", "c"];

#[derive(Clone, Copy)]
struct Layout {
    sizes: [usize; NDC],
    cursors: [usize; NDC],
    local_dc: usize,
    local_idx: usize,
}
fn addr(dc: usize, i: usize) -> SocketAddr {
    OpaqueId(0x1000 | ((dc as u64) << 8) | i as u64)
}
/// concrete shape, arbitrary cursors (every value NodeCycler::next can leave behind: 0..=len; anything >= len is reset on the next call)
fn layout(sizes: [usize; NDC], local_dc: usize, local_idx: usize) -> Layout {
    let mut l = Layout { sizes, cursors: [0; NDC], local_dc, local_idx };
    let mut d = 0;
    while d < NDC {
        l.cursors[d] = kani::any();
        kani::assume(l.cursors[d] <= l.sizes[d]);
        d += 1;
    }
    l
}
fn size_of_dc(l: &Layout, dc: usize) -> usize {
    let mut d = 0;
    let mut r = 0;
    while d < NDC {
        if d == dc {
            r = l.sizes[d];
        }
        d += 1;
    }
    r
}
fn total(l: &Layout) -> usize {
    let mut t = 0;
    let mut d = 0;
    while d < NDC {
        t += l.sizes[d];
        d += 1;
    }
    t
}
fn build(l: &Layout) -> BTreeMap<Cow<'static, str>, NodeCycler> {
    let mut m = BTreeMap::new();
    let mut d = 0;
    while d < NDC {
        if l.sizes[d] > 0 {
            let mut nodes = Nodes::new();
            let mut i = 0;
            while i < NPD {
                if i < l.sizes[d] {
                    nodes.push(addr(d, i));
                }
                i += 1;
            }
            let mut c = NodeCycler::from(nodes);
            c.cursor = l.cursors[d];
            m.insert(Cow::Borrowed(DC_NAMES[d]), c);
        }
        d += 1;
    }
    m
}
fn local_name(l: &Layout) -> &'static str {
    DC_NAMES[l.local_dc]
}
/// number of selected nodes that are node (dc, i) of the layout
fn count(nodes: &Nodes, a: SocketAddr) -> usize {
    let mut c = 0;
    for x in nodes.iter() {
        if *x == a {
            c += 1;
        }
    }
    c
}
/// the structural part of the Ok-postcondition; returns per-DC counts
fn check_members(l: &Layout, nodes: &Nodes) -> [usize; NDC] {
    let local = addr(l.local_dc, l.local_idx);
    let mut per_dc = [0usize; NDC];
    let mut known = 0;
    let mut d = 0;
    while d < NDC {
        let mut i = 0;
        while i < NPD {
            let c = count(nodes, addr(d, i));
            if i < l.sizes[d] && addr(d, i) != local {
                assert!(c <= 1, "no node is selected twice");
            } else {
                assert!(c == 0, "only currently live members other than the local node are selected");
            }
            per_dc[d] += c;
            known += c;
            i += 1;
        }
        d += 1;
    }
    assert!(known == nodes.len(), "every selected node belongs to the current layout");
    per_dc
}

fn need_level(l: &Layout, level: Consistency) -> usize {
    let t = total(l);
    match level {
        Consistency::None => 0,
        Consistency::One => 1,
        Consistency::Two => 2,
        Consistency::Three => 3,
        Consistency::Quorum => t / 2,
        Consistency::LocalQuorum => size_of_dc(l, l.local_dc) / 2,
        Consistency::All => t - 1,
        Consistency::EachQuorum => 0, // checked per data centre below
    }
}
fn any_level() -> Consistency {
    let k: u8 = kani::any();
    kani::assume(k < 8);
    match k {
        0 => Consistency::None,
        1 => Consistency::One,
        2 => Consistency::Two,
        3 => Consistency::Three,
        4 => Consistency::Quorum,
        5 => Consistency::LocalQuorum,
        6 => Consistency::All,
        _ => Consistency::EachQuorum,
    }
}
/// DCAwareSelector::select_nodes, every level, from every cursor state, on one concrete shape
fn selection_contract(sizes: [usize; NDC], local_dc: usize, local_idx: usize) {
    let l = layout(sizes, local_dc, local_idx);
    let level = any_level();
    let mut dcs = build(&l);
    let t = total(&l);
    let mut sel = DCAwareSelector::default();
    let r = sel.select_nodes(addr(l.local_dc, l.local_idx), local_name(&l), t, &mut dcs, level);
    match r {
        Ok(nodes) => {
            let per_dc = check_members(&l, &nodes);
            assert!(nodes.len() >= need_level(&l, level), "at least as many nodes as the level requires");
            match level {
                Consistency::One => assert!(nodes.len() == 1, "exactly n nodes for One / Two / Three"),
                Consistency::Two => assert!(nodes.len() == 2, "exactly n nodes for One / Two / Three"),
                Consistency::Three => assert!(nodes.len() == 3, "exactly n nodes for One / Two / Three"),
                Consistency::All => assert!(nodes.len() == t - 1, "All = every other member"),
                Consistency::None => assert!(nodes.len() == 0, "None = nobody"),
                _ => {},
            }
            if level == Consistency::EachQuorum {
                let mut d = 0;
                while d < NDC {
                    // a majority of every data centre, the local node counting for its own
                    let want = if d == l.local_dc { l.sizes[d] / 2 } else if l.sizes[d] > 0 { l.sizes[d] / 2 + 1 } else { 0 };
                    assert!(per_dc[d] >= want, "a majority in each data centre");
                    d += 1;
                }
            }
        },
        Err(ConsistencyError::NotEnoughNodes { .. }) => {
            assert!(t - 1 < need_level(&l, level), "not-enough-nodes only when fewer than the required number of other live nodes exist");
        },
        Err(_) => panic!("no other error is produced by selection"),
    }
    // the cursors a selection leaves behind are again values this contract starts from (induction over selection histories)
    let mut d = 0;
    while d < NDC {
        if l.sizes[d] > 0 {
            let c = dcs.get(DC_NAMES[d]).map(|c| c.cursor);
            // not part of C15: this is the inductive hypothesis of THIS harness (it starts from cursors in 0..=len). If the cycler is changed so that
            // cursors leave that range, the harness no longer covers every reachable state: a model limit (reported as undecided), not a violation.
            assert!(c.is_some() && c.unwrap() <= l.sizes[d], "vcoll: harness hypothesis not inductive: a selection left a cursor outside 0..=len");
        }
        d += 1;
    }
    kani::cover!(true, "shape reachable");
}
macro_rules! shape {
    ($name:ident, $a:expr, $b:expr, $c:expr, $dc:expr, $idx:expr) => {
        #[kani::proof]
        #[kani::unwind(12)]
        fn $name() {
            selection_contract([$a, $b, $c], $dc, $idx);
        }
    };
}
shape!(sel_100_00, 1, 0, 0, 0, 0);
shape!(sel_200_00, 2, 0, 0, 0, 0);
shape!(sel_200_01, 2, 0, 0, 0, 1);
shape!(sel_300_00, 3, 0, 0, 0, 0);
shape!(sel_300_01, 3, 0, 0, 0, 1);
shape!(sel_300_02, 3, 0, 0, 0, 2);
shape!(sel_110_00, 1, 1, 0, 0, 0);
shape!(sel_110_10, 1, 1, 0, 1, 0);
shape!(sel_120_00, 1, 2, 0, 0, 0);
shape!(sel_120_10, 1, 2, 0, 1, 0);
shape!(sel_120_11, 1, 2, 0, 1, 1);
shape!(sel_130_00, 1, 3, 0, 0, 0);
shape!(sel_130_10, 1, 3, 0, 1, 0);
shape!(sel_130_11, 1, 3, 0, 1, 1);
shape!(sel_130_12, 1, 3, 0, 1, 2);
shape!(sel_210_00, 2, 1, 0, 0, 0);
shape!(sel_210_01, 2, 1, 0, 0, 1);
shape!(sel_210_10, 2, 1, 0, 1, 0);
shape!(sel_220_00, 2, 2, 0, 0, 0);
shape!(sel_220_01, 2, 2, 0, 0, 1);
shape!(sel_220_10, 2, 2, 0, 1, 0);
shape!(sel_220_11, 2, 2, 0, 1, 1);
shape!(sel_230_00, 2, 3, 0, 0, 0);
shape!(sel_230_01, 2, 3, 0, 0, 1);
shape!(sel_230_10, 2, 3, 0, 1, 0);
shape!(sel_230_11, 2, 3, 0, 1, 1);
shape!(sel_230_12, 2, 3, 0, 1, 2);
shape!(sel_310_00, 3, 1, 0, 0, 0);
shape!(sel_310_01, 3, 1, 0, 0, 1);
shape!(sel_310_02, 3, 1, 0, 0, 2);
shape!(sel_310_10, 3, 1, 0, 1, 0);
shape!(sel_320_00, 3, 2, 0, 0, 0);
shape!(sel_320_01, 3, 2, 0, 0, 1);
shape!(sel_320_02, 3, 2, 0, 0, 2);
shape!(sel_320_10, 3, 2, 0, 1, 0);
shape!(sel_320_11, 3, 2, 0, 1, 1);
shape!(sel_330_00, 3, 3, 0, 0, 0);
shape!(sel_330_01, 3, 3, 0, 0, 1);
shape!(sel_330_02, 3, 3, 0, 0, 2);
shape!(sel_330_10, 3, 3, 0, 1, 0);
shape!(sel_330_11, 3, 3, 0, 1, 1);
shape!(sel_330_12, 3, 3, 0, 1, 2);
shape!(sel_111_00, 1, 1, 1, 0, 0);
shape!(sel_111_10, 1, 1, 1, 1, 0);
shape!(sel_111_20, 1, 1, 1, 2, 0);
shape!(sel_112_00, 1, 1, 2, 0, 0);
shape!(sel_112_10, 1, 1, 2, 1, 0);
shape!(sel_112_20, 1, 1, 2, 2, 0);
shape!(sel_112_21, 1, 1, 2, 2, 1);
shape!(sel_113_00, 1, 1, 3, 0, 0);
shape!(sel_113_10, 1, 1, 3, 1, 0);
shape!(sel_113_20, 1, 1, 3, 2, 0);
shape!(sel_113_21, 1, 1, 3, 2, 1);
shape!(sel_113_22, 1, 1, 3, 2, 2);
shape!(sel_121_00, 1, 2, 1, 0, 0);
shape!(sel_121_10, 1, 2, 1, 1, 0);
shape!(sel_121_11, 1, 2, 1, 1, 1);
shape!(sel_121_20, 1, 2, 1, 2, 0);
shape!(sel_122_00, 1, 2, 2, 0, 0);
shape!(sel_122_10, 1, 2, 2, 1, 0);
shape!(sel_122_11, 1, 2, 2, 1, 1);
shape!(sel_122_20, 1, 2, 2, 2, 0);
shape!(sel_122_21, 1, 2, 2, 2, 1);
shape!(sel_123_00, 1, 2, 3, 0, 0);
shape!(sel_123_10, 1, 2, 3, 1, 0);
shape!(sel_123_11, 1, 2, 3, 1, 1);
shape!(sel_123_20, 1, 2, 3, 2, 0);
shape!(sel_123_21, 1, 2, 3, 2, 1);
shape!(sel_123_22, 1, 2, 3, 2, 2);
shape!(sel_131_00, 1, 3, 1, 0, 0);
shape!(sel_131_10, 1, 3, 1, 1, 0);
shape!(sel_131_11, 1, 3, 1, 1, 1);
shape!(sel_131_12, 1, 3, 1, 1, 2);
shape!(sel_131_20, 1, 3, 1, 2, 0);
shape!(sel_132_00, 1, 3, 2, 0, 0);
shape!(sel_132_10, 1, 3, 2, 1, 0);
shape!(sel_132_11, 1, 3, 2, 1, 1);
shape!(sel_132_12, 1, 3, 2, 1, 2);
shape!(sel_132_20, 1, 3, 2, 2, 0);
shape!(sel_132_21, 1, 3, 2, 2, 1);
shape!(sel_133_00, 1, 3, 3, 0, 0);
shape!(sel_133_10, 1, 3, 3, 1, 0);
shape!(sel_133_11, 1, 3, 3, 1, 1);
shape!(sel_133_12, 1, 3, 3, 1, 2);
shape!(sel_133_20, 1, 3, 3, 2, 0);
shape!(sel_133_21, 1, 3, 3, 2, 1);
shape!(sel_133_22, 1, 3, 3, 2, 2);
shape!(sel_211_00, 2, 1, 1, 0, 0);
shape!(sel_211_01, 2, 1, 1, 0, 1);
shape!(sel_211_10, 2, 1, 1, 1, 0);
shape!(sel_211_20, 2, 1, 1, 2, 0);
shape!(sel_212_00, 2, 1, 2, 0, 0);
shape!(sel_212_01, 2, 1, 2, 0, 1);
shape!(sel_212_10, 2, 1, 2, 1, 0);
shape!(sel_212_20, 2, 1, 2, 2, 0);
shape!(sel_212_21, 2, 1, 2, 2, 1);
shape!(sel_213_00, 2, 1, 3, 0, 0);
shape!(sel_213_01, 2, 1, 3, 0, 1);
shape!(sel_213_10, 2, 1, 3, 1, 0);
shape!(sel_213_20, 2, 1, 3, 2, 0);
shape!(sel_213_21, 2, 1, 3, 2, 1);
shape!(sel_213_22, 2, 1, 3, 2, 2);
shape!(sel_221_00, 2, 2, 1, 0, 0);
shape!(sel_221_01, 2, 2, 1, 0, 1);
shape!(sel_221_10, 2, 2, 1, 1, 0);
shape!(sel_221_11, 2, 2, 1, 1, 1);
shape!(sel_221_20, 2, 2, 1, 2, 0);
shape!(sel_222_00, 2, 2, 2, 0, 0);
shape!(sel_222_01, 2, 2, 2, 0, 1);
shape!(sel_222_10, 2, 2, 2, 1, 0);
shape!(sel_222_11, 2, 2, 2, 1, 1);
shape!(sel_222_20, 2, 2, 2, 2, 0);
shape!(sel_222_21, 2, 2, 2, 2, 1);
shape!(sel_223_00, 2, 2, 3, 0, 0);
shape!(sel_223_01, 2, 2, 3, 0, 1);
shape!(sel_223_10, 2, 2, 3, 1, 0);
shape!(sel_223_11, 2, 2, 3, 1, 1);
shape!(sel_223_20, 2, 2, 3, 2, 0);
shape!(sel_223_21, 2, 2, 3, 2, 1);
shape!(sel_223_22, 2, 2, 3, 2, 2);
shape!(sel_231_00, 2, 3, 1, 0, 0);
shape!(sel_231_01, 2, 3, 1, 0, 1);
shape!(sel_231_10, 2, 3, 1, 1, 0);
shape!(sel_231_11, 2, 3, 1, 1, 1);
shape!(sel_231_12, 2, 3, 1, 1, 2);
shape!(sel_231_20, 2, 3, 1, 2, 0);
shape!(sel_232_00, 2, 3, 2, 0, 0);
shape!(sel_232_01, 2, 3, 2, 0, 1);
shape!(sel_232_10, 2, 3, 2, 1, 0);
shape!(sel_232_11, 2, 3, 2, 1, 1);
shape!(sel_232_12, 2, 3, 2, 1, 2);
shape!(sel_232_20, 2, 3, 2, 2, 0);
shape!(sel_232_21, 2, 3, 2, 2, 1);
shape!(sel_233_00, 2, 3, 3, 0, 0);
shape!(sel_233_01, 2, 3, 3, 0, 1);
shape!(sel_233_10, 2, 3, 3, 1, 0);
shape!(sel_233_11, 2, 3, 3, 1, 1);
shape!(sel_233_12, 2, 3, 3, 1, 2);
shape!(sel_233_20, 2, 3, 3, 2, 0);
shape!(sel_233_21, 2, 3, 3, 2, 1);
shape!(sel_233_22, 2, 3, 3, 2, 2);
shape!(sel_311_00, 3, 1, 1, 0, 0);
shape!(sel_311_01, 3, 1, 1, 0, 1);
shape!(sel_311_02, 3, 1, 1, 0, 2);
shape!(sel_311_10, 3, 1, 1, 1, 0);
shape!(sel_311_20, 3, 1, 1, 2, 0);
shape!(sel_312_00, 3, 1, 2, 0, 0);
shape!(sel_312_01, 3, 1, 2, 0, 1);
shape!(sel_312_02, 3, 1, 2, 0, 2);
shape!(sel_312_10, 3, 1, 2, 1, 0);
shape!(sel_312_20, 3, 1, 2, 2, 0);
shape!(sel_312_21, 3, 1, 2, 2, 1);
shape!(sel_313_00, 3, 1, 3, 0, 0);
shape!(sel_313_01, 3, 1, 3, 0, 1);
shape!(sel_313_02, 3, 1, 3, 0, 2);
shape!(sel_313_10, 3, 1, 3, 1, 0);
shape!(sel_313_20, 3, 1, 3, 2, 0);
shape!(sel_313_21, 3, 1, 3, 2, 1);
shape!(sel_313_22, 3, 1, 3, 2, 2);
shape!(sel_321_00, 3, 2, 1, 0, 0);
shape!(sel_321_01, 3, 2, 1, 0, 1);
shape!(sel_321_02, 3, 2, 1, 0, 2);
shape!(sel_321_10, 3, 2, 1, 1, 0);
shape!(sel_321_11, 3, 2, 1, 1, 1);
shape!(sel_321_20, 3, 2, 1, 2, 0);
shape!(sel_322_00, 3, 2, 2, 0, 0);
shape!(sel_322_01, 3, 2, 2, 0, 1);
shape!(sel_322_02, 3, 2, 2, 0, 2);
shape!(sel_322_10, 3, 2, 2, 1, 0);
shape!(sel_322_11, 3, 2, 2, 1, 1);
shape!(sel_322_20, 3, 2, 2, 2, 0);
shape!(sel_322_21, 3, 2, 2, 2, 1);
shape!(sel_323_00, 3, 2, 3, 0, 0);
shape!(sel_323_01, 3, 2, 3, 0, 1);
shape!(sel_323_02, 3, 2, 3, 0, 2);
shape!(sel_323_10, 3, 2, 3, 1, 0);
shape!(sel_323_11, 3, 2, 3, 1, 1);
shape!(sel_323_20, 3, 2, 3, 2, 0);
shape!(sel_323_21, 3, 2, 3, 2, 1);
shape!(sel_323_22, 3, 2, 3, 2, 2);
shape!(sel_331_00, 3, 3, 1, 0, 0);
shape!(sel_331_01, 3, 3, 1, 0, 1);
shape!(sel_331_02, 3, 3, 1, 0, 2);
shape!(sel_331_10, 3, 3, 1, 1, 0);
shape!(sel_331_11, 3, 3, 1, 1, 1);
shape!(sel_331_12, 3, 3, 1, 1, 2);
shape!(sel_331_20, 3, 3, 1, 2, 0);
shape!(sel_332_00, 3, 3, 2, 0, 0);
shape!(sel_332_01, 3, 3, 2, 0, 1);
shape!(sel_332_02, 3, 3, 2, 0, 2);
shape!(sel_332_10, 3, 3, 2, 1, 0);
shape!(sel_332_11, 3, 3, 2, 1, 1);
shape!(sel_332_12, 3, 3, 2, 1, 2);
shape!(sel_332_20, 3, 3, 2, 2, 0);
shape!(sel_332_21, 3, 3, 2, 2, 1);
shape!(sel_333_00, 3, 3, 3, 0, 0);
shape!(sel_333_01, 3, 3, 3, 0, 1);
shape!(sel_333_02, 3, 3, 3, 0, 2);
shape!(sel_333_10, 3, 3, 3, 1, 0);
shape!(sel_333_11, 3, 3, 3, 1, 1);
shape!(sel_333_12, 3, 3, 3, 1, 2);
shape!(sel_333_20, 3, 3, 3, 2, 0);
shape!(sel_333_21, 3, 3, 3, 2, 1);
shape!(sel_333_22, 3, 3, 3, 2, 2);

/// `Op::SetNodes` (the membership update reaching the selector): afterwards the layout is EXACTLY the new one -- a data centre that is
/// not in the update is gone (so nodes and whole data centres that left are never selected again), every listed data centre holds
/// exactly the listed nodes (cursor inside 0..=len), the total is the sum, and the selection cache is emptied.
/// Old layout: data centres a (2 nodes) and b (1 node) with arbitrary cursors; new layout: one of five concrete updates (one harness each).
fn set_nodes_contract(which: u8) {
    let old = layout([2, 1, 0], 0, 0);
    let dcs = build(&old);
    // new sizes per data centre a, b, c (node j of data centre d is addr(d, j + 1): the node sets differ from the old ones)
    let new_sizes: [usize; NDC] = match which {
        0 => [0, 0, 0],
        1 => [1, 0, 0],
        2 => [0, 2, 1],
        3 => [2, 1, 0],
        _ => [0, 0, 3],
    };
    let mut update: BTreeMap<Cow<'static, str>, Nodes> = BTreeMap::new();
    let mut d = 0;
    while d < NDC {
        if new_sizes[d] > 0 {
            let mut nodes = Nodes::new();
            let mut i = 0;
            while i < NPD {
                if i < new_sizes[d] {
                    nodes.push(addr(d, i + 1));
                }
                i += 1;
            }
            update.insert(Cow::Borrowed(DC_NAMES[d]), nodes);
        }
        d += 1;
    }
    let stale_total: usize = kani::any();
    let (after, total_nodes, cache) = set_nodes_arm(update, dcs, stale_total, crate::env::CacheStub { entries: 3 });
    let mut d = 0;
    let mut ndc = 0;
    let mut sum = 0;
    while d < NDC {
        let got = after.get(DC_NAMES[d]);
        if new_sizes[d] > 0 {
            assert!(got.is_some(), "every data centre of the update is installed");
            let c = got.unwrap();
            assert!(c.len() == new_sizes[d], "with exactly the listed nodes");
            let mut i = 0;
            while i < NPD {
                if i < new_sizes[d] {
                    assert!(c.get_nodes().contains(&addr(d, i + 1)), "with exactly the listed nodes");
                }
                i += 1;
            }
            // (same remark: the selection harnesses start from cursors in 0..=len; a fresh cursor is what the code does, any cursor in range would do)
            assert!(c.cursor <= new_sizes[d], "vcoll: harness hypothesis not inductive: an update left a cursor outside 0..=len");
            ndc += 1;
            sum += new_sizes[d];
        } else {
            assert!(got.is_none(), "a data centre that left is no longer selectable");
        }
        d += 1;
    }
    assert!(after.len() == ndc, "nothing but the update's data centres remains");
    assert!(total_nodes == sum, "the total is the number of nodes in the update");
    assert!(cache.entries == 0, "cached selections are dropped");
    kani::cover!(true, "update reachable");
}
macro_rules! set_nodes_case {
    ($name:ident, $w:expr) => {
        #[kani::proof]
        #[kani::unwind(12)]
        fn $name() {
            set_nodes_contract($w);
        }
    };
}
set_nodes_case!(sel_set_nodes_0, 0);
set_nodes_case!(sel_set_nodes_1, 1);
set_nodes_case!(sel_set_nodes_2, 2);
set_nodes_case!(sel_set_nodes_3, 3);
set_nodes_case!(sel_set_nodes_4, 4);

// native replay of Kani counterexamples (tools/replay.py writes the file)
#[cfg(verif_replay)]
include!("/verif/build/selector/replay_tests.rs");
