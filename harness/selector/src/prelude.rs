// ---- prelude for nodes_selector.rs slices ---------------------------------------------------------
use crate::env::SCow as Cow; // borrowed-only stand-in: data-centre names are &'static str constants in this unit
use std::cmp;
use std::time::Duration;

use vcoll::vvec::VVec as Vec;
use vcoll::BTreeMap;

use crate::env::rand;
use crate::env::{SmallVec, SocketAddr};

#[allow(unused_macros)]
macro_rules! debug {
    ($($t:tt)*) => {};
}
#[allow(unused_macros)]
macro_rules! warn {
    ($($t:tt)*) => {};
}
#[allow(unused_macros)]
macro_rules! info {
    ($($t:tt)*) => {};
}
impl vcoll::Havoc for NodeCycler {
    fn havoc() -> Self {
        panic!("vcoll: data-centre layouts are concrete")
    }
}
// ---- end of prelude ---------------------------------------------------------------------------
