//! Unit `selector` (C15): contracts on DCAwareSelector::select_nodes, select_n_nodes and NodeCycler sliced verbatim from
//! /repo/datacake-node/src/nodes_selector.rs.
#![allow(dead_code, unused_imports)]

pub mod env;

#[path = "/verif/build/selector/gen/selector.rs"]
pub mod selector;
