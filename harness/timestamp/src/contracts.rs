//! Contracts for `HLCTimestamp` (C09, C10) as loop-free Kani harnesses over the
//! full symbolic domain. Precondition = kani::assume, postcondition = assert.
//! The wall clock and the std integer parsers are the only stubbed functions.
use core::num::ParseIntError;
use std::str::FromStr;
use std::time::Duration;

use crate::timestamp::*;

// ---------------------------------------------------------------- helpers

/// `valid(ts)`: the type invariant every constructor establishes
/// (fraction counts 4 ms units, so it stays below 250).
fn valid(ts: &HLCTimestamp) -> bool {
    ts.fractional() < 250
}

fn any_ts() -> HLCTimestamp {
    HLCTimestamp::from_u64(kani::any())
}

fn any_valid_ts() -> HLCTimestamp {
    let ts = any_ts();
    kani::assume(valid(&ts));
    ts
}

fn dur(secs: u64, frac: u8) -> Duration {
    Duration::from_secs(secs) + Duration::from_millis(frac as u64 * 4)
}

/// (time at 4 ms resolution, counter, node) as the property orders them.
fn key(ts: &HLCTimestamp) -> (u64, u8, u16, u8) {
    (ts.seconds(), ts.fractional(), ts.counter(), ts.node())
}

/// time part only: (seconds, 4 ms units). Lexicographic order == time order for valid stamps.
fn ticks(ts: &HLCTimestamp) -> (u64, u8) {
    (ts.seconds(), ts.fractional())
}
/// `t` is more than MAX_CLOCK_DRIFT (4100 s exactly) ahead of wall reading `w`.
fn too_far_ahead(t: (u64, u8), w: (u64, u8)) -> bool {
    t > (w.0 + 4_100, w.1)
}

// ---- injected wall clock (cfg(datacake_verif) hook in timestamp.rs): any reading
// at all -- stalled, backwards, far ahead -- inside the representable 32-bit range.
fn set_any_wall() -> (u64, u8) {
    let s: u64 = kani::any();
    let f: u8 = kani::any();
    // assumption: the wall clock is inside the representable range (before year 2159)
    kani::assume(s <= TIMESTAMP_MAX && f < 250);
    verif_clock::set(Some(dur(s, f)));
    (s, f)
}

// ---------------------------------------------------------------- C09: send

/// send: Ok(r) => r == clock' > clock, own node id, drift bound, valid kept;
/// Err => clock unchanged and the error names a real reason.
#[kani::proof]
fn ts_send_contract() {
    let mut clock = any_valid_ts();
    let old = clock;
    let w = set_any_wall();
    let r = clock.send();
    match r {
        Ok(r) => {
            assert!(r == clock, "issued stamp is the new clock value");
            assert!(clock > old, "clock strictly increases");
            assert!(r.node() == old.node(), "issued stamp carries own node id");
            assert!(valid(&clock), "type invariant kept");
            assert!(
                clock.datacake_timestamp().saturating_sub(dur(w.0, w.1)) <= MAX_CLOCK_DRIFT,
                "never more than the permitted drift ahead of the wall clock"
            );
            assert!(!too_far_ahead(ticks(&clock), w));
            kani::cover!(ticks(&old) > w, "send ok with wall clock behind");
            kani::cover!(ticks(&old) == w, "send ok with stalled wall clock");
            kani::cover!(ticks(&old) < w, "send ok with advancing wall clock");
        },
        Err(e) => {
            assert!(clock == old, "failed send leaves the clock unchanged");
            match e {
                TimestampError::ClockDrift => {
                    assert!(too_far_ahead(ticks(&old), w), "drift error only when too far ahead");
                    kani::cover!(true, "send drift error");
                },
                TimestampError::Overflow => {
                    assert!(old.counter() == u16::MAX, "overflow error only when the counter is exhausted");
                    kani::cover!(true, "send overflow error");
                },
                TimestampError::DuplicatedNode(_) => assert!(false, "send never reports a duplicated node"),
            }
        },
    }
}

// ---------------------------------------------------------------- C09: recv

/// recv: Ok => clock' > clock, clock' > msg, own node id kept, drift bound;
/// Err => clock unchanged; DuplicatedNode iff same node id.
#[kani::proof]
fn ts_recv_contract() {
    let mut clock = any_valid_ts();
    let msg = any_valid_ts();
    let old = clock;
    let w = set_any_wall();
    let r = clock.recv(&msg);
    match &r {
        Ok(_) => {
            assert!(old.node() != msg.node(), "own stamps are never accepted");
            assert!(clock > old, "clock strictly increases");
            assert!(clock > msg, "clock is greater than the accepted remote stamp");
            assert!(clock.node() == old.node(), "clock keeps own node id");
            assert!(valid(&clock), "type invariant kept");
            assert!(
                clock.datacake_timestamp().saturating_sub(dur(w.0, w.1)) <= MAX_CLOCK_DRIFT,
                "never more than the permitted drift ahead of the wall clock"
            );
            kani::cover!(ticks(&msg) > ticks(&old) && ticks(&msg) > w, "recv ok, remote ahead");
            kani::cover!(ticks(&msg) == ticks(&old), "recv ok, same tick");
            kani::cover!(ticks(&old) > w, "recv ok, wall clock behind");
        },
        Err(e) => {
            assert!(clock == old, "failed recv leaves the clock unchanged");
            match e {
                TimestampError::DuplicatedNode(n) => {
                    assert!(old.node() == msg.node() && *n == msg.node());
                    kani::cover!(true, "recv duplicated node");
                },
                TimestampError::ClockDrift => {
                    assert!(old.node() != msg.node());
                    let hi = if ticks(&old) > ticks(&msg) { ticks(&old) } else { ticks(&msg) };
                    assert!(too_far_ahead(hi, w), "drift error only when too far ahead");
                    kani::cover!(too_far_ahead(ticks(&msg), w), "recv remote too far ahead");
                },
                TimestampError::Overflow => {
                    assert!(old.node() != msg.node());
                    assert!(old.counter() == u16::MAX || msg.counter() == u16::MAX);
                    kani::cover!(true, "recv overflow error");
                },
            }
        },
    }
    if old.node() == msg.node() {
        assert!(matches!(r, Err(TimestampError::DuplicatedNode(_))), "same node id is always refused");
    }
}

/// recv with a remote stamp that does not satisfy the type invariant (raw
/// 64 bits from the network): still no panic, state unchanged on error, and the
/// clock ends up greater than the stamp it accepted.
#[kani::proof]
fn ts_recv_raw_remote() {
    let mut clock = any_valid_ts();
    let msg = any_ts();
    // assumption (stated in evidence): neither the clock nor the raw stamp sits in the
    // last second of the 32-bit range (year 2159), where an over-range fraction carries
    // into a 33rd bit; with valid stamps (ts_recv_contract) no such restriction is needed.
    kani::assume(clock.seconds() < TIMESTAMP_MAX && msg.seconds() < TIMESTAMP_MAX);
    let old = clock;
    set_any_wall();
    match clock.recv(&msg) {
        Ok(_) => {
            assert!(clock > old);
            assert!(clock > msg);
            assert!(clock.node() == old.node());
            assert!(valid(&clock));
            kani::cover!(msg.fractional() >= 250, "accepted a raw stamp with fraction >= 250");
        },
        Err(_) => { assert!(clock == old); },
    }
}

// ------------------------------------------- C09/C11: induction step pairs

/// send; send from an arbitrary clock: the later issue is greater.
#[kani::proof]
fn ts_two_step_send_send() {
    let mut clock = any_valid_ts();
    let start = clock;
    set_any_wall();
    let a = clock.send();
    let mid = clock;
    set_any_wall();
    let b = clock.send();
    if let (Ok(a), Ok(b)) = (&a, &b) {
        assert!(*b > *a && *a > start);
        assert!(a.node() == start.node() && b.node() == start.node());
        kani::cover!(true, "two successful sends");
    }
    if b.is_err() {
        assert!(clock == mid);
    }
}

/// recv; send: everything issued after accepting a remote stamp is greater than it.
#[kani::proof]
fn ts_two_step_recv_send() {
    let mut clock = any_valid_ts();
    let msg = any_valid_ts();
    let start = clock;
    set_any_wall();
    let a = clock.recv(&msg);
    set_any_wall();
    let b = clock.send();
    if let (Ok(_), Ok(b)) = (&a, &b) {
        assert!(*b > msg && *b > start);
        assert!(b.node() == start.node());
        kani::cover!(true, "recv then send");
    }
    if let (Err(_), Ok(b)) = (&a, &b) {
        assert!(*b > start);
    }
}

/// send; recv: the clock after the recv is greater than what was issued before.
#[kani::proof]
fn ts_two_step_send_recv() {
    let mut clock = any_valid_ts();
    let msg = any_valid_ts();
    set_any_wall();
    let a = clock.send();
    let mid = clock;
    set_any_wall();
    let b = clock.recv(&msg);
    if let (Ok(a), Ok(_)) = (&a, &b) {
        assert!(clock > *a && clock > msg);
        kani::cover!(true, "send then recv");
    }
    if b.is_err() {
        assert!(clock == mid);
    }
}

// ---------------------------------------------------------------- C10: packing

/// new/accessors/as_u64/from_u64/datacake_timestamp/unix_timestamp round trip
/// for every valid field combination.
#[kani::proof]
fn ts_pack_roundtrip() {
    let secs: u64 = kani::any();
    let frac: u8 = kani::any();
    let counter: u16 = kani::any();
    let node: u8 = kani::any();
    kani::assume(secs <= TIMESTAMP_MAX && frac < 250);
    let d = dur(secs, frac);
    let ts = HLCTimestamp::new(d, counter, node);
    assert!(ts.seconds() == secs);
    assert!(ts.fractional() == frac);
    assert!(ts.counter() == counter);
    assert!(ts.node() == node);
    assert!(ts.datacake_timestamp() == d);
    assert!(ts.unix_timestamp() == d + DATACAKE_EPOCH);
    assert!(HLCTimestamp::from_u64(ts.as_u64()) == ts);
    assert!(HLCTimestamp::new(ts.datacake_timestamp(), ts.counter(), ts.node()) == ts);
    assert!(valid(&ts));
    kani::cover!(secs == TIMESTAMP_MAX && frac == 249 && counter == u16::MAX && node == u8::MAX, "all fields at their maximum");
}

/// `new` on an arbitrary in-range Duration truncates to 4 ms and nothing else.
#[kani::proof]
fn ts_new_truncates() {
    let secs: u64 = kani::any();
    let nanos: u32 = kani::any();
    kani::assume(secs <= TIMESTAMP_MAX && nanos < 1_000_000_000);
    let ts = HLCTimestamp::new(Duration::new(secs, nanos), kani::any(), kani::any());
    assert!(ts.seconds() == secs);
    assert!(ts.fractional() as u32 == nanos / 4_000_000);
    assert!(valid(&ts));
}

/// comparing stamps == comparing (time, counter, node) lexicographically,
/// for all 2^64 x 2^64 pairs, and raw <-> accessor views agree.
#[kani::proof]
fn ts_order_lex() {
    let a = any_ts();
    let b = any_ts();
    assert!((a < b) == (key(&a) < key(&b)));
    assert!((a == b) == (key(&a) == key(&b)));
    assert!((a <= b) == (key(&a) <= key(&b)));
    assert!(a.cmp(&b) == key(&a).cmp(&key(&b)));
    assert!((a < b) == (a.as_u64() < b.as_u64()));
}

// ---------------------------------------------------------------- C10: parsing

static mut PARSED: (Option<u64>, [Option<u8>; 2], Option<u16>) = (None, [None; 2], None);
static mut U8_CALLS: usize = 0;

fn parse_err() -> ParseIntError {
    // any ParseIntError: the code under analysis only calls `.ok()` on it.
    // (Built without calling a parser, which would recurse into the stub.)
    unsafe { core::mem::transmute::<u8, ParseIntError>(0u8) }
}
fn stub_u64_from_str(_s: &str) -> Result<u64, ParseIntError> {
    if kani::any() {
        let v: u64 = kani::any();
        unsafe { PARSED.0 = Some(v) };
        Ok(v)
    } else {
        Err(parse_err())
    }
}
fn stub_u8_from_str(_s: &str) -> Result<u8, ParseIntError> {
    if kani::any() {
        let v: u8 = kani::any();
        unsafe {
            let i = U8_CALLS;
            if i < 2 {
                PARSED.1[i] = Some(v);
            }
            U8_CALLS += 1;
        }
        Ok(v)
    } else {
        Err(parse_err())
    }
}
fn stub_u16_from_str_radix(_s: &str, radix: u32) -> Result<u16, ParseIntError> {
    assert!(radix == 16, "counter is parsed as hexadecimal");
    if kani::any() {
        let v: u16 = kani::any();
        unsafe { PARSED.2 = Some(v) };
        Ok(v)
    } else {
        Err(parse_err())
    }
}

/// Under verification the text is irrelevant (the parsers are havocked).
#[cfg(not(verif_replay))]
fn from_str_input() -> String {
    String::from("1-2-3-4")
}
/// Native replay: stubs are inert, so the text that makes the REAL std parsers return
/// the recorded values is built from the same draws, in the order the stubs make them
/// (a failed parse ends the draws, as it ends `from_str`).
#[cfg(verif_replay)]
fn from_str_input() -> String {
    let mut out: Vec<String> = Vec::new();
    let mut go = true;
    unsafe {
        if go {
            if kani::any::<bool>() { let v: u64 = kani::any(); PARSED.0 = Some(v); out.push(format!("{v}")); } else { go = false; }
        }
        if go {
            if kani::any::<bool>() { let v: u8 = kani::any(); PARSED.1[0] = Some(v); out.push(format!("{v:0>4}")); } else { go = false; }
        }
        if go {
            if kani::any::<bool>() { let v: u16 = kani::any(); PARSED.2 = Some(v); out.push(format!("{v:0>4X}")); } else { go = false; }
        }
        if go {
            if kani::any::<bool>() { let v: u8 = kani::any(); PARSED.1[1] = Some(v); out.push(format!("{v:0>4}")); } else { go = false; }
        }
    }
    if !go {
        out.push(String::from("not-a-number"));
    }
    let text = out.join("-");
    println!("replay input text: {text:?}");
    text
}

/// from_str is total: for every outcome of the integer parsers on a
/// four-field input it returns Ok or Err and never panics; an Ok result for
/// in-range fields carries exactly the parsed fields.
#[kani::proof]
#[kani::unwind(8)]
#[kani::stub(<u64 as core::str::FromStr>::from_str, stub_u64_from_str)]
#[kani::stub(<u8 as core::str::FromStr>::from_str, stub_u8_from_str)]
#[kani::stub(u16::from_str_radix, stub_u16_from_str_radix)]
fn ts_from_str_total() {
    let text = from_str_input();
    let r = HLCTimestamp::from_str(&text);
    let (secs, fr_nd, counter) = unsafe { (PARSED.0, PARSED.1, PARSED.2) };
    match r {
        Ok(ts) => {
            assert!(secs.is_some() && fr_nd[0].is_some() && fr_nd[1].is_some() && counter.is_some());
            let (s, f, c, n) = (secs.unwrap(), fr_nd[0].unwrap(), counter.unwrap(), fr_nd[1].unwrap());
            if s <= TIMESTAMP_MAX && f < 250 {
                assert!(key(&ts) == (s, f, c, n), "parsed fields are the fields of the result");
            }
            assert!(valid(&ts), "a parsed stamp satisfies the type invariant");
            kani::cover!(s == TIMESTAMP_MAX && f == 249, "largest valid time parses");
        },
        Err(InvalidFormat) => {
            kani::cover!(secs.is_none(), "seconds field does not parse");
            kani::cover!(secs.is_some() && secs.unwrap() > TIMESTAMP_MAX, "seconds out of range is an error");
            kani::cover!(
                secs.is_some() && secs.unwrap() == TIMESTAMP_MAX && fr_nd[0].is_some() && fr_nd[0].unwrap() >= 250,
                "fraction out of range at the last second is an error"
            );
        },
    }
}

/// The field splitting runs for real: inputs with 0..=5 fields either fail or
/// take the four-field path (parsers havocked as above). One harness per input
/// so that the string is concrete and `splitn` is executed, not solved for.
macro_rules! from_str_fields {
    ($name:ident, $text:expr, few) => {
        #[kani::proof]
        #[kani::unwind(12)]
        #[kani::stub(<u64 as core::str::FromStr>::from_str, stub_u64_from_str)]
        #[kani::stub(<u8 as core::str::FromStr>::from_str, stub_u8_from_str)]
        #[kani::stub(u16::from_str_radix, stub_u16_from_str_radix)]
        fn $name() {
            let r = HLCTimestamp::from_str($text);
            assert!(r.is_err(), "fewer than four fields is an error");
        }
    };
    ($name:ident, $text:expr, full) => {
        #[kani::proof]
        #[kani::unwind(12)]
        #[kani::stub(<u64 as core::str::FromStr>::from_str, stub_u64_from_str)]
        #[kani::stub(<u8 as core::str::FromStr>::from_str, stub_u8_from_str)]
        #[kani::stub(u16::from_str_radix, stub_u16_from_str_radix)]
        fn $name() {
            let r = HLCTimestamp::from_str($text);
            kani::cover!(r.is_ok(), "four or more fields can parse");
            kani::cover!(r.is_err(), "parse failure is reachable");
        }
    };
}
from_str_fields!(ts_from_str_fields_0, "", few);
from_str_fields!(ts_from_str_fields_1, "7", few);
from_str_fields!(ts_from_str_fields_2, "7-8", few);
from_str_fields!(ts_from_str_fields_3, "7-8-9", few);
from_str_fields!(ts_from_str_fields_4, "7-8-9-1", full);
from_str_fields!(ts_from_str_fields_5, "7-8-9-1-2", full);

/// C10 "printing then parsing is the identity": Display and the REAL integer parsers executed on concrete boundary values
/// (core::fmt and str searching are outside CBMC's reach for symbolic values). Class B: a grid of field values, one harness per point.
macro_rules! print_parse {
    ($name:ident, $secs:expr, $frac:expr, $counter:expr, $node:expr) => {
        #[kani::proof]
        #[kani::unwind(40)]
        fn $name() {
            let x = HLCTimestamp::new(dur($secs, $frac), $counter, $node);
            let text = x.to_string();
            let r = HLCTimestamp::from_str(&text);
            assert!(matches!(r, Ok(y) if y == x), "printing then parsing is the identity");
        }
    };
}
print_parse!(ts_print_parse_0, 0, 0, 0, 0);
print_parse!(ts_print_parse_1, 4294967295, 249, 0xFFFF, 255);
print_parse!(ts_print_parse_2, 1, 7, 0x00A0, 9);
print_parse!(ts_print_parse_3, 1234567890, 100, 0x0ABC, 10);

// native replay of Kani counterexamples (tools/replay.py writes the file)
#[cfg(verif_replay)]
include!("/verif/build/timestamp/replay_tests.rs");
