//! Unit `timestamp`: contracts on /repo/datacake-crdt/src/timestamp.rs, compiled
//! straight from the working tree (no copy, no edit).
#![allow(dead_code, unused_imports)]

#[path = "/repo/datacake-crdt/src/timestamp.rs"]
pub mod timestamp;

#[cfg(kani)]
mod contracts;
