//! `SpecSet`: the ORSWOT API written DIRECTLY FROM ITS CONTRACTS (kernels over maps), used by
//! caller units (actor, group) instead of the real orswot.rs text. This is modular verification:
//! a caller is checked against the callee's contract, not its body. That the real code satisfies
//! exactly these contracts is the set of obligations of the `orswot` / `orswot_b` units
//! (os_will_apply, os_insert_contract, os_delete_contract, os_purge_all, os_raw_tombstones, os_diff_list),
//! which every caller property also runs.
//!
//! Stamps are stored as the packed u64 (order-isomorphic to HLCTimestamp: ts_order_lex).
use vcoll::{BTreeMap, HashMap};

use crate::kernels::*;
use crate::timestamp::HLCTimestamp;

pub type Key = u64;
#[cfg(not(specset_real_vec))]
pub type StateChanges = vcoll::vvec::VVec<(Key, HLCTimestamp)>;
#[cfg(specset_real_vec)]
pub type StateChanges = Vec<(Key, HLCTimestamp)>;

#[derive(Clone)]
pub struct OrSWotSet<const N: usize = 1> {
    pub entries: BTreeMap<Key, u64>,
    pub dead: HashMap<Key, u64>,
    pub m: [BTreeMap<u8, u64>; 2],
    pub l: BTreeMap<u8, u64>,
}

impl<const N: usize> Default for OrSWotSet<N> {
    fn default() -> Self {
        OrSWotSet { entries: BTreeMap::new(), dead: HashMap::new(), m: [BTreeMap::new(), BTreeMap::new()], l: BTreeMap::new() }
    }
}

impl<const N: usize> OrSWotSet<N> {
    /// an arbitrary set of any size (havoc maps)
    pub fn arbitrary_unbounded() -> Self {
        OrSWotSet {
            entries: BTreeMap::arbitrary_unbounded(),
            dead: HashMap::arbitrary_unbounded(),
            m: [BTreeMap::arbitrary_unbounded(), BTreeMap::arbitrary_unbounded()],
            l: BTreeMap::arbitrary_unbounded(),
        }
    }

    pub fn slot(&self, k: Key) -> Slot {
        match (self.entries.get(&k).copied(), self.dead.get(&k).copied()) {
            (Some(e), _) => Slot::Live(e),
            (None, Some(d)) => Slot::Dead(d),
            (None, None) => Slot::Empty,
        }
    }
    fn set_slot(&mut self, k: Key, s: Slot) {
        match s {
            Slot::Empty => {
                self.entries.remove(&k);
                self.dead.remove(&k);
            },
            Slot::Live(t) => {
                self.dead.remove(&k);
                self.entries.insert(k, t);
            },
            Slot::Dead(t) => {
                self.entries.remove(&k);
                self.dead.insert(k, t);
            },
        }
    }
    pub fn cutoff(&self, node: u8) -> Option<u64> {
        self.l.get(&node).copied()
    }

    /// contract os_get
    pub fn get(&self, k: &Key) -> Option<HLCTimestamp> {
        self.entries.get(k).map(|t| HLCTimestamp::from_u64(*t))
    }

    /// contract os_will_apply
    pub fn will_apply(&self, key: Key, ts: HLCTimestamp) -> bool {
        k_will_apply(self.slot(key), self.cutoff(ts.node()), ts.as_u64())
    }

    fn accept(&mut self, source: usize, t: u64, node: u8) -> bool {
        if k_before(self.cutoff(node), t) {
            return false;
        }
        let mx = k_max_stamp(self.m[source].get(&node).copied(), t);
        self.m[source].insert(node, mx);
        let safe = k_safe(self.m[0].get(&node).copied(), self.m[1].get(&node).copied(), node);
        self.l.insert(node, safe);
        true
    }

    /// contract os_insert_contract
    pub fn insert_with_source(&mut self, source: usize, k: Key, ts: HLCTimestamp) -> bool {
        assert!(source < N);
        let t = ts.as_u64();
        if !self.accept(source, t, ts.node()) {
            return false;
        }
        let s0 = self.slot(k);
        let s1 = k_insert(s0, t);
        self.set_slot(k, s1);
        s1 != s0
    }
    pub fn insert(&mut self, k: Key, ts: HLCTimestamp) -> bool {
        self.insert_with_source(0, k, ts)
    }

    /// contract os_delete_contract
    pub fn delete_with_source(&mut self, source: usize, k: Key, ts: HLCTimestamp) -> bool {
        assert!(source < N);
        let t = ts.as_u64();
        if !self.accept(source, t, ts.node()) {
            return false;
        }
        let s0 = self.slot(k);
        let s1 = k_delete(s0, t);
        self.set_slot(k, s1);
        s1 != s0
    }
    pub fn delete(&mut self, k: Key, ts: HLCTimestamp) -> bool {
        self.delete_with_source(0, k, ts)
    }

    /// contract os_purge_all (the tombstone map must be concrete: bounded obligation)
    pub fn purge_old_deletes(&mut self) -> StateChanges {
        let mut out = StateChanges::new();
        let old = core::mem::take(&mut self.dead);
        for (k, d) in old {
            let ts = HLCTimestamp::from_u64(d);
            if k_before(self.cutoff(ts.node()), d) {
                out.push((k, ts));
            } else {
                self.dead.insert(k, d);
            }
        }
        out
    }

    /// contract os_raw_tombstones
    pub fn add_raw_tombstones(&mut self, tombstones: StateChanges) {
        for (k, ts) in tombstones {
            self.dead.insert(k, ts.as_u64());
        }
    }

    /// contract os_diff_list (the peer's maps must be concrete: bounded obligation)
    pub fn diff(&self, other: &OrSWotSet<N>) -> (StateChanges, StateChanges) {
        let mut changes = StateChanges::new();
        let mut removals = StateChanges::new();
        for (k, t) in other.entries.iter() {
            let ts = HLCTimestamp::from_u64(*t);
            if k_lacks(self.slot(*k), self.cutoff(ts.node()), *t) {
                changes.push((*k, ts));
            }
        }
        for (k, t) in other.dead.iter() {
            let ts = HLCTimestamp::from_u64(*t);
            if k_lacks(self.slot(*k), self.cutoff(ts.node()), *t) {
                removals.push((*k, ts));
            }
        }
        (changes, removals)
    }
}

impl<const N: usize> vcoll::Havoc for OrSWotSet<N> {
    fn havoc() -> Self {
        Self::arbitrary_unbounded()
    }
}
