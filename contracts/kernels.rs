// Kernels: total functions on plain data in the Rust subset shared by Kani and Verus.
// Kani proves "real code == kernel" (harness/*/src/contracts.rs); tools/verus_gen.py pastes this
// text inside `verus!{}` (turning each `// verus-ensures:` comment into an `ensures` clause) where
// Verus proves "exec kernel == spec kernel" and the lemma layer reasons about the spec kernels.
// Timestamps are the packed u64 (order on HLCTimestamp == order on the u64: obligation ts_order_lex).

/// What a replica holds for one key.
#[derive(Clone, Copy, PartialEq, Eq, Debug)]
pub enum Slot {
    Empty,
    Live(u64),
    Dead(u64),
}

/// FORGIVENESS_PERIOD (3600 s) in packed-time units: seconds live in the top 32 bits.
pub const FORGIVE: u64 = 3600u64 << 32;

// verus-ensures: r == sk_insert(s, t)
pub fn k_insert(s: Slot, t: u64) -> Slot {
    match s {
        Slot::Empty => Slot::Live(t),
        Slot::Live(e) => {
            if e < t {
                Slot::Live(t)
            } else {
                s
            }
        },
        Slot::Dead(d) => {
            if t < d {
                s
            } else {
                Slot::Live(t)
            }
        },
    }
}

// verus-ensures: r == sk_delete(s, t)
pub fn k_delete(s: Slot, t: u64) -> Slot {
    match s {
        Slot::Empty => Slot::Dead(t),
        Slot::Live(e) => {
            if t <= e {
                s
            } else {
                Slot::Dead(t)
            }
        },
        Slot::Dead(d) => {
            if d < t {
                Slot::Dead(t)
            } else {
                s
            }
        },
    }
}

/// `cut(t)`: t with its time reduced by the forgiveness period (saturating at time zero,
/// which also clears the 4 ms fraction), counter and node kept.
// verus-ensures: r == sk_cut(t)
pub fn k_cut(t: u64) -> u64 {
    if (t >> 32) >= 3600 {
        // verus-proof: assert((t >> 32) >= 3600 ==> t >= 3600u64 << 32) by (bit_vector);
        t - FORGIVE
    } else {
        t & 0xFF_FFFF
    }
}

/// `before(L, t)`: t is older than the purge cut-off `l` held for its origin node (None = no cut-off yet).
// verus-ensures: r == sk_before(l, t)
pub fn k_before(l: Option<u64>, t: u64) -> bool {
    match l {
        Some(c) => t < c,
        None => false,
    }
}

/// will-apply prediction: not before the cut-off and strictly newer than what is held.
// verus-ensures: r == sk_will_apply(s, l, t)
pub fn k_will_apply(s: Slot, l: Option<u64>, t: u64) -> bool {
    if k_before(l, t) {
        return false;
    }
    match s {
        Slot::Empty => true,
        Slot::Live(e) => e < t,
        Slot::Dead(d) => d < t,
    }
}

/// `lacks(S, k, t)`: the replica lacks the peer's item (k, t): strictly newer than the held
/// entry, else than the held tombstone, else (nothing held) not before the cut-off of t's origin.
// verus-ensures: r == sk_lacks(s, l, t)
pub fn k_lacks(s: Slot, l: Option<u64>, t: u64) -> bool {
    match s {
        Slot::Live(e) => e < t,
        Slot::Dead(d) => d < t,
        Slot::Empty => !k_before(l, t),
    }
}

/// newest stamp per (source, origin) after observing t
// verus-ensures: r == sk_max_stamp(m, t)
pub fn k_max_stamp(m: Option<u64>, t: u64) -> u64 {
    match m {
        Some(x) => {
            if x < t {
                t
            } else {
                x
            }
        },
        None => t,
    }
}

/// purge cut-off for origin `node` from the two per-source newest stamps
/// (an absent source counts as the zero stamp of that node).
// verus-ensures: r == sk_safe(m0, m1, node)
pub fn k_safe(m0: Option<u64>, m1: Option<u64>, node: u8) -> u64 {
    let a = match m0 {
        Some(x) => x,
        None => node as u64,
    };
    let b = match m1 {
        Some(x) => x,
        None => node as u64,
    };
    if a < b {
        k_cut(a)
    } else {
        k_cut(b)
    }
}

/// merge kernel, per key: what `S.merge(O)` leaves at a key where S holds `s` and O holds `o`;
/// `ls` / `lo` are S's / O's cut-offs for the origin of the stamp they are compared with.
/// (Read off OrSWotSet::merge: a peer tombstone older than S's cut-off is ignored; an own live entry the
/// peer does not hold live and that is older than the PEER's cut-off is dropped; otherwise greatest stamp wins,
/// a delete winning an exact tie against an own entry.)
// verus-ensures: r == sk_merge(s, o, s_before_lo, o_before_ls)
pub fn k_merge(s: Slot, o: Slot, s_before_lo: bool, o_before_ls: bool) -> Slot {
    match o {
        Slot::Live(t) => match s {
            Slot::Empty => Slot::Live(t),
            Slot::Live(e) => {
                if e < t {
                    Slot::Live(t)
                } else {
                    Slot::Live(e)
                }
            },
            Slot::Dead(d) => {
                if t < d {
                    Slot::Dead(d)
                } else {
                    Slot::Live(t)
                }
            },
        },
        Slot::Dead(t) => {
            if o_before_ls {
                // the peer's tombstone is ignored
                match s {
                    Slot::Live(e) => {
                        if s_before_lo {
                            Slot::Empty
                        } else {
                            Slot::Live(e)
                        }
                    },
                    _ => s,
                }
            } else {
                match s {
                    Slot::Empty => Slot::Dead(t),
                    Slot::Dead(d) => {
                        if d < t {
                            Slot::Dead(t)
                        } else {
                            Slot::Dead(d)
                        }
                    },
                    Slot::Live(e) => {
                        if s_before_lo {
                            Slot::Dead(t)
                        } else if e < t {
                            Slot::Dead(t)
                        } else {
                            Slot::Live(e)
                        }
                    },
                }
            }
        },
        Slot::Empty => match s {
            Slot::Live(e) => {
                if s_before_lo {
                    Slot::Empty
                } else {
                    Slot::Live(e)
                }
            },
            _ => s,
        },
    }
}
