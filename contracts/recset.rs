//! `RecSet`: a RECORDING stand-in for the ORSWOT set, used by callers whose contract is "which
//! operations reach the set, in which order, through which source" (restart replay). What those
//! operations do to a real set is the ORSWOT contract (os_insert_contract / os_delete_contract) and the
//! composition is a Verus lemma (lemmas/restart.rs).
use vcoll::vvec::VVec;

use crate::timestamp::HLCTimestamp;

pub type Key = u64;

#[derive(Clone, Copy, PartialEq, Debug)]
pub struct RecOp {
    pub key: Key,
    pub stamp: u64,
    pub is_delete: bool,
    pub source: usize,
}

#[derive(Clone, Default)]
pub struct OrSWotSet<const N: usize = 1> {
    pub ops: VVec<RecOp>,
}
impl<const N: usize> vcoll::Havoc for OrSWotSet<N> {
    fn havoc() -> Self {
        panic!("vcoll: recording sets are not havocked")
    }
}
impl<const N: usize> OrSWotSet<N> {
    pub fn insert_with_source(&mut self, source: usize, k: Key, ts: HLCTimestamp) -> bool {
        assert!(source < N);
        self.ops.push(RecOp { key: k, stamp: ts.as_u64(), is_delete: false, source });
        true
    }
    pub fn delete_with_source(&mut self, source: usize, k: Key, ts: HLCTimestamp) -> bool {
        assert!(source < N);
        self.ops.push(RecOp { key: k, stamp: ts.as_u64(), is_delete: true, source });
        true
    }
    pub fn insert(&mut self, k: Key, ts: HLCTimestamp) -> bool {
        self.insert_with_source(0, k, ts)
    }
    pub fn delete(&mut self, k: Key, ts: HLCTimestamp) -> bool {
        self.delete_with_source(0, k, ts)
    }
}
