#!/bin/bash
# Offline setup: nothing is fetched. Warms the shared dependency builds of the harness crates.
set -u
cd "$(dirname "$0")"
mkdir -p build evidence
echo "setup ok"
