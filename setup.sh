#!/bin/bash
# Offline setup: nothing is fetched. Validates the vcoll stand-ins against the real std
# collections (differential test) and creates the scratch directories.
set -u
set -o pipefail
cd "$(dirname "$0")"
mkdir -p build evidence
export CARGO_NET_OFFLINE=true
( cd vcoll && VCOLL_CAP=6 CARGO_TARGET_DIR=../build/target-vcoll-test cargo test --offline -q 2>&1 | tail -5 ) || { echo "vcoll differential validation failed"; exit 1; }
( cd vcoll && VCOLL_CAP=6 CARGO_TARGET_DIR=../build/target-vcoll-test cargo test --offline -q --features inline 2>&1 | tail -5 ) || { echo "vcoll differential validation (inline storage) failed"; exit 1; }
echo "setup ok"
